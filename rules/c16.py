"""
C16  Saving, loading and copying reproduce objects exactly.

  R1-tables    per concrete class: keys written by to_hdf5 == keys read by from_hdf5; every written value is the
               same-named attribute; every read key reaches the same-named constructor keyword / attribute; the reader
               function matches the field's declared type; every data-carrying constructor parameter is persisted
               "written to HDF5 ... and read back ... is observably equal to the original in all data, labels, group metadata"
  R2-overwrite h5py_File_write_dict: for every key on every path either the dataset is (re)created after deleting an
               existing one, or an existing one is deleted (None field), or the sub-dictionary is written recursively
               "after any sequence of writes to the same file location the object read back equals the last one written"
  R3-copies    __copy__/__deepcopy__ pass every constructor parameter from the same-named attribute, copy all group
               metadata, and __deepcopy__ wraps every mutable field in copy.deepcopy
               "shallow and deep copies compare equal to their source, and deep copies share no mutable state with it"
  R4-tables    pandas/CSV: column options reach the same field on both sides; to_csv/from_csv forward every option by name
  R5-vcf       phased calls taken as genotypes[:, 0:2] and transposed to (phase, taxa, variant)
"""
import ast

from sa.astutil import field_of, kwargs_of, dump, where, walk_no_nested, strip_us, is_none
from sa.model import AnalysisError, body_nodoc, ClassInfo, FuncInfo
from sa.order import enumerate_paths, Event, calls_in_order, names

H5 = "pybrops.core.util.h5py"
IMMUTABLE_GUARDS = ("check_is_int", "check_is_Integral", "check_is_bool", "check_is_str", "check_is_float",
                    "check_is_Real", "check_is_Number", "check_is_int_or_None", "check_is_str_or_None")


# ---------------------------------------------------------------------------------------------- R2
def check_overwrite(prog, rep):
    f = prog.func(H5, "h5py_File_write_dict")
    rep.saw(f)
    construct = f.qualname
    params = f.params()
    loops = [s for s in body_nodoc(f.node) if isinstance(s, ast.For)]
    if len(loops) != 1:
        rep.unrec("R2-overwrite", construct, "expected one loop over the dictionary items, found %d" % len(loops))
        return
    loop = loops[0]
    if not (isinstance(loop.target, ast.Tuple) and len(loop.target.elts) == 2):
        rep.unrec("R2-overwrite", construct, "loop target not (key, item)")
        return
    keyv, itemv = [e.id for e in loop.target.elts]
    h5 = params[0]
    grp = params[1]
    owv = "overwrite" if "overwrite" in params else None

    # names bound to `groupname + key`
    fieldnames = set()
    for n in walk_no_nested(loop):
        if isinstance(n, ast.Assign) and len(n.targets) == 1 and isinstance(n.targets[0], ast.Name):
            v = n.value
            if isinstance(v, ast.BinOp) and isinstance(v.op, ast.Add) and isinstance(v.left, ast.Name) and v.left.id == grp \
                    and isinstance(v.right, ast.Name) and v.right.id == keyv:
                fieldnames.add(n.targets[0].id)

    def is_field(e):
        if isinstance(e, ast.Name) and e.id in fieldnames:
            return True
        return (isinstance(e, ast.BinOp) and isinstance(e.op, ast.Add) and isinstance(e.left, ast.Name) and e.left.id == grp
                and isinstance(e.right, ast.Name) and e.right.id == keyv)

    def discard_helper(c):
        """call of a module function whose whole body is `if (name in file) and overwrite: del file[name]`, given (h5file, <field>, overwrite)"""
        if not (isinstance(c.func, ast.Name)):
            return False
        g = prog.resolve_name(f.module, c.func.id)
        if not hasattr(g, "node") or getattr(g, "cls", None) is not None:
            return False
        gb = body_nodoc(g.node)
        gp = g.params()
        if len(gb) != 1 or not isinstance(gb[0], ast.If) or gb[0].orelse or len(gp) < 3:
            return False
        gi = gb[0]
        if not (len(gi.body) == 1 and isinstance(gi.body[0], ast.Delete) and len(gi.body[0].targets) == 1 and "".join(dump(gi.body[0].targets[0]).split()) == "%s[%s]" % (gp[0], gp[1])):
            return False
        t = "".join(dump(gi.test).split())
        if t not in ("%sin%sand%s" % (gp[1], gp[0], gp[2]), "%sand%sin%s" % (gp[2], gp[1], gp[0])):
            return False
        ba, _ = prog.bound_args(f, c)
        if ba is None:
            return False
        return dump(ba.get(gp[0])) == h5 and ba.get(gp[1]) is not None and is_field(ba[gp[1]]) and (owv is None or dump(ba.get(gp[2])) == owv)

    def classify(st):
        evs = []
        if isinstance(st, ast.Expr) and isinstance(st.value, ast.Call) and discard_helper(st.value):
            return [Event("discard", st)]
        if isinstance(st, ast.Delete):
            for t in st.targets:
                if isinstance(t, ast.Subscript) and isinstance(t.value, ast.Name) and t.value.id == h5 and is_field(t.slice):
                    evs.append(Event("del", st))
                else:
                    evs.append(Event("?del:" + dump(t), st))
            return evs
        for c in calls_in_order(st):
            fn = c.func
            if isinstance(fn, ast.Attribute) and fn.attr == "create_dataset" and isinstance(fn.value, ast.Name) and fn.value.id == h5:
                kws, _ = kwargs_of(c)
                name = c.args[0] if c.args else kws.get("name")
                data = kws.get("data") if "data" in kws else (c.args[1] if len(c.args) > 1 else None)
                if name is not None and is_field(name) and isinstance(data, ast.Name) and data.id == itemv:
                    evs.append(Event("create", c))
                else:
                    evs.append(Event("!create-other", c, dump(c)[:60]))
            elif isinstance(fn, ast.Name) and fn.id == f.name:
                kws, _ = kwargs_of(c)
                ow = kws.get("overwrite") if "overwrite" in kws else (c.args[3] if len(c.args) > 3 else None)
                evs.append(Event("recurse", c, ow))
            elif isinstance(fn, ast.Attribute) and fn.attr in ("require_dataset", "resize", "write_direct"):
                evs.append(Event("!inplace", c, dump(c)[:60]))
        if isinstance(st, ast.Assign):
            for t in st.targets:
                # h5file[field][...] = item   or   dset[...] = item : re-use of the existing dataset
                base = t
                depth = 0
                while isinstance(base, ast.Subscript):
                    base = base.value
                    depth += 1
                if depth >= 1 and isinstance(base, ast.Name) and (base.id == h5 or base.id in dsets):
                    evs.append(Event("!inplace", st, dump(st)[:60]))
                if isinstance(t, ast.Name) and isinstance(st.value, ast.Subscript) and isinstance(st.value.value, ast.Name) \
                        and st.value.value.id == h5:
                    dsets.add(t.id)
        elif isinstance(st, ast.AugAssign):
            pass
        return evs

    dsets = set()
    paths = enumerate_paths(loop.body, classify)
    okall = True
    npaths = 0
    for p in paths:
        term = p[-1].name if p and p[-1].name.startswith("<") else None
        if term == "<return>":
            rep.unrec("R2-overwrite", construct, "return inside the item loop")
            okall = False
            continue
        npaths += 1
        w = names(p)
        bad = [e for e in p if e.name.startswith("!")]
        if bad:
            rep.violate("R2-overwrite", construct, "an existing dataset is written in place / re-used instead of being replaced "
                        "(dtype and shape of the earlier write survive): %s" % bad[0].data, where(f, bad[0].node),
                        "del h5file[fieldname]; create_dataset(fieldname, data=item)", bad[0].data)
            okall = False
            continue
        if any(x.startswith("?") for x in w):
            rep.unrec("R2-overwrite", construct, "statement not modelled: %s" % w)
            okall = False
            continue
        # which delete-guards did the path pass, and how
        guards = []
        for e in p:
            if e.name == "<if>":
                test, taken = e.data
                if _is_exists_and_overwrite(test, h5, is_field, owv):
                    guards.append(taken)
        if "discard" in w:
            # the guarded delete happens inside the helper: the path behaves like `guard passed; del` at that point
            k = w.index("discard")
            w = w[:k] + ["del"] + w[k + 1:]
            guards = [True] + guards
        if "recurse" in w:
            # a nested dictionary is read back key by key from its group (h5py_File_read_dict takes every key it finds): the old group has to go first
            if not guards:
                rep.violate("R2-overwrite", construct, "a nested dictionary is written into an existing group without removing it: keys of an earlier, richer dictionary survive "
                            "and are read back (e.g. stale hyperparams)", where(f), "if fieldname in h5file and overwrite: del h5file[fieldname] before recursing", " ".join(w))
                okall = False
            elif guards[0] is True and (("del" not in w) or w.index("del") > w.index("recurse")):
                rep.violate("R2-overwrite", construct, "the existing group of a nested dictionary is not deleted before it is rewritten", where(f), "del before the recursive call", " ".join(w))
                okall = False
            continue
        if "create" in w:
            # create must be preceded by the exists-guard, and when the guard is taken by `del`
            if not guards:
                rep.violate("R2-overwrite", construct, "dataset is created without first removing an existing one",
                            where(f), "if fieldname in h5file and overwrite: del h5file[fieldname]", " ".join(w))
                okall = False
            elif guards[0] is True and (("del" not in w) or w.index("del") > w.index("create")):
                rep.violate("R2-overwrite", construct, "existing dataset is not deleted before create_dataset on the overwrite path",
                            where(f), "del before create", " ".join(w))
                okall = False
            continue
        # no create, no recursion: the key is skipped (None) -- an existing dataset must have been removed
        if not guards:
            why = _skip_reason(p)
            rep.violate("R2-overwrite", construct, "a key is skipped (%s) without removing a dataset left by an earlier write: the stale "
                        "field survives overwriting a richer object with a poorer one" % why, where(f, p[-1].node if p else loop),
                        "if fieldname in h5file and overwrite: del h5file[fieldname]", "continue")
            okall = False
        elif guards[0] is True and "del" not in w:
            rep.violate("R2-overwrite", construct, "skipped key: existing dataset is not deleted on the overwrite path", where(f))
            okall = False
    if okall and npaths:
        rep.ok("R2-overwrite", construct, "all %d paths through one dictionary item replace, delete or recurse" % npaths,
               sample={"function": construct, "paths": npaths})
    # recursive call forwards overwrite (information only: default True is the documented behaviour)
    for n in walk_no_nested(loop):
        if isinstance(n, ast.Call) and isinstance(n.func, ast.Name) and n.func.id == f.name:
            kws, _ = kwargs_of(n)
            if "overwrite" not in kws and len(n.args) < 4:
                rep.info("R2-overwrite", construct, "recursive call does not forward `overwrite` (nested dictionaries always use the default)")


def _is_exists_and_overwrite(test, h5, is_field, owv):
    conj = test.values if isinstance(test, ast.BoolOp) and isinstance(test.op, ast.And) else [test]
    exists = False
    ow = owv is None
    for c in conj:
        if isinstance(c, ast.Compare) and len(c.ops) == 1 and isinstance(c.ops[0], ast.In) and is_field(c.left) \
                and isinstance(c.comparators[0], ast.Name) and c.comparators[0].id == h5:
            exists = True
        elif isinstance(c, ast.Name) and c.id == owv:
            ow = True
    return exists and ow and len(conj) <= 2


def _skip_reason(p):
    for e in p:
        if e.name == "<if>" and e.data[1] is True:
            return dump(e.data[0])[:40]
    return "?"


# ---------------------------------------------------------------------------------------------- R3
def _self_attr_of_copy(prog, f, v):
    """value expr -> (kind, attr) with kind in none/plain/copy/deepcopy/other"""
    if is_none(v) or isinstance(v, ast.Constant):
        return ("const", None)
    a = field_of(v)
    if a is not None:
        return ("plain", a)
    if isinstance(v, ast.Call):
        d = prog.dotted(f.module, v.func)
        if d in ("copy.copy", "copy.deepcopy") and v.args:
            a = field_of(v.args[0])
            if a is not None:
                return (d.split(".")[1], a)
        if isinstance(v.func, ast.Attribute) and v.func.attr in ("copy", "deepcopy") and field_of(v.func.value) is not None:
            return ("copy" if v.func.attr == "copy" else "deepcopy", field_of(v.func.value))
    return ("other", None)


def _immutable_by_setter(prog, K, attr):
    """every store `self._attr = v` in K's MRO happens in a function that guards v with an immutable-type check"""
    n_store = 0
    for c in prog.mro_classes(K):
        funcs = list(c.methods.values())
        for p in c.own_props.values():
            if p.setter is not None:
                funcs.append(p.setter)
        for fn in funcs:
            for n in walk_no_nested(fn.node):
                if isinstance(n, ast.Assign) and any(field_of(t) == attr and isinstance(t.ctx, ast.Store) for t in n.targets
                                                     if isinstance(t, ast.Attribute)):
                    n_store += 1
                    if not isinstance(n.value, ast.Name):
                        return False
                    guarded = any(isinstance(m, ast.Call) and isinstance(m.func, ast.Name) and m.func.id in IMMUTABLE_GUARDS
                                  and m.args and isinstance(m.args[0], ast.Name) and m.args[0].id == n.value.id
                                  for m in walk_no_nested(fn.node))
                    if not guarded:
                        return False
    return n_store > 0


def _slot_backed(prog, K, attr):
    """the property getter of K returns the stored slot self._attr (a derived property is not data to be copied)"""
    p = prog.lookup_prop(K, attr)
    if p is None or p.getter is None:
        return True
    body = body_nodoc(p.getter.node)
    if len(body) == 1 and isinstance(body[0], ast.Return) and body[0].value is not None:
        return field_of(body[0].value) == attr
    return True


def check_copies(prog, rep, tier):
    n_methods = 0
    for c in prog.all_classes():
        if prog.mro(c) is None:
            continue
        for nm in ("__copy__", "__deepcopy__"):
            f = c.methods.get(nm)
            if f is None:
                continue
            body = body_nodoc(f.node)
            if len(body) == 1 and isinstance(body[0], ast.Raise):
                continue   # abstract
            n_methods += 1
            rep.saw(f)
            construct = f.qualname
            deep = nm == "__deepcopy__"
            # the constructed object
            ctor = None
            # local aliases of the object's own class: K = type(self) / self.__class__
            cls_alias = {"cls"}
            for n in walk_no_nested(f.node):
                if isinstance(n, ast.Assign) and len(n.targets) == 1 and isinstance(n.targets[0], ast.Name) and "".join(dump(n.value).split()) in ("type(self)", "self.__class__"):
                    cls_alias.add(n.targets[0].id)
            for n in walk_no_nested(f.node):
                if isinstance(n, ast.Call):
                    fn = n.func
                    if (isinstance(fn, ast.Attribute) and fn.attr == "__init__" and isinstance(fn.value, ast.Name) and fn.value.id != "self") or \
                       (isinstance(fn, ast.Attribute) and fn.attr == "__class__" and field_of(fn) is not None) or \
                       (isinstance(fn, ast.Name) and fn.id in cls_alias) or \
                       (isinstance(fn, ast.Name) and isinstance(prog.resolve_name(f.module, fn.id), ClassInfo)
                            and prog.resolve_name(f.module, fn.id) is c):
                        ctor = n
                        break
            if ctor is None:
                rep.unrec("R3-copies", construct, "no construction of the copy found (form not modelled)")
                continue
            kws, stars = kwargs_of(ctor)
            if ctor.args or stars:
                rep.unrec("R3-copies", construct, "positional / ** constructor arguments not modelled")
                continue
            good = True
            for k, v in kws.items():
                kind, a = _self_attr_of_copy(prog, f, v)
                if kind == "const":
                    # a constant for a parameter that IS a stored field of the object (the class has a property of that name): the field is not copied but reset / rebuilt
                    if k in prog.all_props(c) and not k.startswith("auto_"):
                        rep.violate("R3-copies", construct, "the copy is constructed with %s=%s although the object stores %s: the copy does not carry the source's %s (it is reset or "
                                    "rebuilt from the other fields, which need not give the same object)" % (k, dump(v), k, k), where(f, ctor), "%s=<copy of self.%s>" % (k, k), dump(v))
                        good = False
                    continue
                if kind == "other":
                    rep.unrec("R3-copies", construct, "keyword %s=%s not modelled" % (k, dump(v)[:50]))
                    good = False
                    continue
                if a != k:
                    rep.violate("R3-copies", construct, "copy passes self.%s as %s" % (a, k), where(f, ctor), "%s=<copy of self.%s>" % (k, k), dump(v)[:50])
                    good = False
                    continue
                if deep and kind != "deepcopy":
                    if _immutable_by_setter(prog, c, k):
                        continue
                    rep.violate("R3-copies", construct, "deep copy shares %s with its source (%s)" % (k, "shallow copy" if kind == "copy" else "same object"),
                                where(f, ctor), "copy.deepcopy(self.%s, memo)" % k, dump(v)[:50])
                    good = False
            # post stores out.g = ...
            outnames = set()
            for st in body:
                if isinstance(st, ast.Assign) and st.value is ctor and isinstance(st.targets[0], ast.Name):
                    outnames.add(st.targets[0].id)
            if isinstance(ctor.func, ast.Attribute) and ctor.func.attr == "__init__":
                outnames.add(ctor.func.value.id)
            posts = {}
            for n in walk_no_nested(f.node):
                if isinstance(n, ast.Assign) and len(n.targets) == 1 and isinstance(n.targets[0], ast.Attribute) \
                        and isinstance(n.targets[0].value, ast.Name) and n.targets[0].value.id in outnames:
                    g = strip_us(n.targets[0].attr)
                    kind, a = _self_attr_of_copy(prog, f, n.value)
                    posts[g] = kind
                    if kind == "other":
                        rep.unrec("R3-copies", construct, "metadata store %s not modelled: %s" % (g, dump(n.value)[:50]))
                        good = False
                    elif kind != "const" and a != g:
                        rep.violate("R3-copies", construct, "copy stores self.%s into %s" % (a, g), where(f, n), "out.%s = <copy of self.%s>" % (g, g), dump(n)[:60])
                        good = False
                    elif deep and kind not in ("deepcopy", "const"):
                        rep.violate("R3-copies", construct, "deep copy shares %s with its source" % g, where(f, n), "copy.deepcopy(self.%s, memo)" % g, dump(n.value)[:50])
                        good = False
            # completeness: for every concrete class using this method, each constructor parameter and each group
            # metadata property must be covered
            users = [K for K in prog.subclasses(c.name) if prog.mro(K) is not None and prog.lookup_method(K, nm) is f]
            for K in users:
                kc = construct if K is c else "%s[as %s]" % (construct, K.name)
                missing = [p for p in prog.init_params(K) if p not in kws and _slot_backed(prog, K, p)]
                if missing:
                    rep.violate("R3-copies", kc, "constructor parameter(s) %s of %s are not copied" % (", ".join(missing), K.name), where(f, ctor),
                                "%s=<copy of self.%s>" % (missing[0], missing[0]), "absent")
                    good = False
                meta = [p for p in prog.all_props(K) if p.endswith(("_grp_name", "_grp_stix", "_grp_spix", "_grp_len",
                                                                     "chrgrp_name", "chrgrp_stix", "chrgrp_spix", "chrgrp_len"))]
                miss = [m for m in meta if m not in posts and m not in kws]
                if miss:
                    rep.violate("R3-copies", kc, "group metadata %s of %s is not copied" % (", ".join(miss), K.name), where(f),
                                "out.%s = <copy of self.%s>" % (miss[0], miss[0]), "absent")
                    good = False
            if good:
                rep.ok("R3-copies", construct, "%d constructor keywords and %d metadata stores copied by name%s; %d concrete class(es)"
                       % (len(kws), len(posts), " through copy.deepcopy" if deep else "", len(users)),
                       sample={"method": construct, "keywords": sorted(kws), "metadata": sorted(posts)} if n_methods < 4 else None)
        # copy()/deepcopy() delegate
        for nm, target, lib in (("copy", "__copy__", "copy.copy"), ("deepcopy", "__deepcopy__", "copy.deepcopy")):
            f = c.methods.get(nm)
            if f is None:
                continue
            body = body_nodoc(f.node)
            if len(body) == 1 and isinstance(body[0], ast.Raise):
                continue
            rep.saw(f)
            okd = False
            if len(body) == 1 and isinstance(body[0], ast.Return) and isinstance(body[0].value, ast.Call):
                call = body[0].value
                d = prog.dotted(f.module, call.func)
                if d == lib and call.args and isinstance(call.args[0], ast.Name) and call.args[0].id == "self":
                    okd = True
                elif isinstance(call.func, ast.Attribute) and call.func.attr == target and isinstance(call.func.value, ast.Name) \
                        and call.func.value.id == "self":
                    okd = True
                elif d in ("copy.copy", "copy.deepcopy") or (isinstance(call.func, ast.Attribute) and call.func.attr in ("__copy__", "__deepcopy__")):
                    rep.violate("R3-copies", f.qualname, "%s() delegates to %s" % (nm, d or call.func.attr), where(f), lib + "(self)", dump(call)[:50])
                    continue
            if okd:
                rep.ok("R3-copies", f.qualname, "%s() delegates to %s" % (nm, target))
            else:
                rep.unrec("R3-copies", f.qualname, "%s() body not modelled" % nm)
    rep.extra["copy_methods"] = n_methods


def check_presence_guards(prog, rep):
    """R5-presence: "optional data absent" round trips rely on each optional table being read exactly when ITS OWN entry is present: in
    `None if d["k"] is None else read(d["k"], ...)` (or the if-statement form) the guarded branch reads the entry the test looked at."""
    n = 0
    for m in sorted(prog.modules.values(), key=lambda m_: m_.name):
        for c in m.classes.values():
            for f in c.methods.values():
                if not (f.name.startswith("from_") or f.name.startswith("to_")):
                    continue
                for node in walk_no_nested(f.node):
                    if not isinstance(node, (ast.IfExp, ast.If)):
                        continue
                    t = node.test
                    if not (isinstance(t, ast.Compare) and len(t.ops) == 1 and isinstance(t.ops[0], (ast.Is, ast.IsNot)) and isinstance(t.comparators[0], ast.Constant)
                            and t.comparators[0].value is None and isinstance(t.left, ast.Subscript) and isinstance(t.left.slice, ast.Constant)):
                        continue
                    cont, key = dump(t.left.value), t.left.slice.value
                    present = node.orelse if isinstance(t.ops[0], ast.Is) else node.body
                    present = present if isinstance(present, list) else [present]
                    keys = {x.slice.value for b in present for x in ast.walk(b) if isinstance(x, ast.Subscript) and isinstance(x.slice, ast.Constant) and dump(x.value) == cont
                            and isinstance(x.ctx, ast.Load)}
                    if not keys:
                        continue
                    n += 1
                    rep.saw(f)
                    construct = "%s[%s]" % (f.qualname, key)
                    if key not in keys:
                        rep.violate("R5-presence", construct, "the entry %s[%r] is read when %s[%r] is present: with %r absent and %r given the data are silently dropped (or a missing file is "
                                    "opened)" % (cont, sorted(keys)[0], cont, key, key, sorted(keys)[0]), where(f, node), "%s[%r] is None" % (cont, sorted(keys)[0]), dump(t))
                    else:
                        rep.ok("R5-presence", construct, "optional entry %r read exactly when it is present" % key)
    return n


def check_written_dict(prog, rep):
    """R6-whole: h5py_File_write_dict deletes a dataset left by an earlier object only when it is handed the key with value None (R2-overwrite); every writer
    therefore passes its complete field table - the dictionary literal itself, not a filtered or rebuilt copy of it."""
    n = 0
    for m in sorted(prog.modules.values(), key=lambda m_: m_.name):
        for c in m.classes.values():
            for f in c.methods.values():
                calls = [x for x in walk_no_nested(f.node) if isinstance(x, ast.Call) and isinstance(x.func, ast.Name) and x.func.id == "h5py_File_write_dict"]
                for call in calls:
                    d = call.args[2] if len(call.args) > 2 else kwargs_of(call)[0].get("in_dict")
                    n += 1
                    rep.saw(f)
                    construct = f.qualname
                    if isinstance(d, ast.Dict):
                        rep.ok("R6-whole", construct, "field table written as a literal")
                        continue
                    if not isinstance(d, ast.Name):
                        rep.unrec("R6-whole", construct, "dictionary handed to the writer is %s" % dump(d)[:50] if d is not None else "absent")
                        continue
                    binds = [x for x in walk_no_nested(f.node) if isinstance(x, (ast.Assign, ast.AugAssign, ast.AnnAssign)) and any(
                        isinstance(t, ast.Name) and t.id == d.id for t in (x.targets if isinstance(x, ast.Assign) else [x.target]))]
                    edits = [x for x in walk_no_nested(f.node) if (isinstance(x, ast.Delete) and any(isinstance(t, ast.Subscript) and dump(t.value) == d.id for t in x.targets))
                             or (isinstance(x, ast.Call) and isinstance(x.func, ast.Attribute) and dump(x.func.value) == d.id and x.func.attr in ("pop", "popitem", "clear"))]
                    lit = [x for x in binds if isinstance(x, ast.Assign) and isinstance(x.value, ast.Dict)]
                    other = [x for x in binds if x not in lit]
                    filt = [x for x in other if isinstance(getattr(x, "value", None), (ast.DictComp, ast.Call)) and any(
                        isinstance(g, ast.comprehension) and g.ifs for g in ast.walk(x.value)) and any(isinstance(y, ast.Name) and y.id == d.id for y in ast.walk(x.value))]
                    if filt or edits:
                        bad = (filt or edits)[0]
                        rep.violate("R6-whole", construct, "the field table is filtered before it reaches the writer (%s): an entry that is None is what makes the writer delete the dataset an "
                                    "earlier, richer object left under the same name - after overwriting, the object read back is not the last one written" % dump(bad)[:70],
                                    where(f, bad), "h5py_File_write_dict(h5file, groupname, <complete table>, overwrite)", dump(bad)[:70])
                    elif len(lit) == 1 and not other:
                        rep.ok("R6-whole", construct, "complete field table handed to the writer")
                    else:
                        rep.unrec("R6-whole", construct, "field table %s is bound %d times / not by a literal" % (d.id, len(binds)))
    return n


def check_memo_defaults(prog, rep):
    """R7-memo: `deepcopy(memo=None)` starts every deep copy with a fresh memo; a mutable default (`memo = {}`) is ONE dictionary shared by all calls, it maps
    id(source member) -> the first copy's member, so the second deep copy of the same object is assembled from the first copy's (possibly edited) members."""
    n = 0
    for m in sorted(prog.modules.values(), key=lambda m_: m_.name):
        for c in m.classes.values():
            for f in c.methods.values():
                if f.name not in ("deepcopy", "__deepcopy__", "copy", "__copy__"):
                    continue
                a = f.node.args
                pos = a.posonlyargs + a.args
                pairs = list(zip(pos[len(pos) - len(a.defaults):], a.defaults)) + [(k, d) for k, d in zip(a.kwonlyargs, a.kw_defaults) if d is not None]
                for arg, d in pairs:
                    n += 1
                    rep.saw(f)
                    construct = "%s(%s=)" % (f.qualname, arg.arg)
                    if isinstance(d, (ast.Dict, ast.List, ast.Set)) or (isinstance(d, ast.Call) and isinstance(d.func, ast.Name) and d.func.id in ("dict", "list", "set")):
                        rep.violate("R7-memo", construct, "the default of `%s` is the mutable object %s, shared by every call: the second deep copy of an object is built from the members "
                                    "of its first copy (shared mutable state between copies, and a copy that does not equal its source once the first copy was edited)"
                                    % (arg.arg, dump(d)), where(f), "%s=None" % arg.arg, dump(d))
                    else:
                        rep.ok("R7-memo", construct, "default %s" % dump(d))
    return n


def check_flatten_index(prog, rep):
    """R8-longformat: every variance / covariance matrix writes its data frame rows through core.util.array.flattenix: the k-th flattened value (C order) must come with
    the k-th index of every axis, which is what numpy.meshgrid gives only with indexing='ij' (its default 'xy' exchanges the first two axes); both flattens are C order."""
    try:
        f = prog.func("pybrops.core.util.array", "flattenix")
    except Exception:
        rep.unrec("R8-longformat", "pybrops.core.util.array", "flattenix vanished")
        return
    rep.saw(f)
    construct = f.qualname
    mg = [c_ for c_ in walk_no_nested(f.node) if isinstance(c_, ast.Call) and (prog.dotted(f.module, c_.func) or "") == "numpy.meshgrid"]
    if len(mg) != 1:
        rep.unrec("R8-longformat", construct, "index vectors are not built by one numpy.meshgrid call (another formulation)")
        return
    kws, _ = kwargs_of(mg[0])
    ix = kws.get("indexing")
    if ix is None or (isinstance(ix, ast.Constant) and ix.value == "xy"):
        rep.violate("R8-longformat", construct, "numpy.meshgrid is called %s: with the 'xy' convention the index vectors of the first two axes are exchanged while the values are "
                    "flattened in C order - cell [i, j, ...] is exported under the labels of [j, i, ...]" % ("without indexing=" if ix is None else "with indexing='xy'"),
                    where(f, mg[0]), "indexing='ij'", "absent" if ix is None else "'xy'")
        return
    if not (isinstance(ix, ast.Constant) and ix.value == "ij"):
        rep.unrec("R8-longformat", construct, "indexing=%s" % dump(ix))
        return
    orders = [c_ for c_ in walk_no_nested(f.node) if isinstance(c_, ast.Call) and isinstance(c_.func, ast.Attribute) and c_.func.attr in ("flatten", "ravel")]
    bad = [c_ for c_ in orders if c_.args and isinstance(c_.args[0], ast.Constant) and c_.args[0].value not in ("C",)]
    kinds = {(c_.args[0].value if c_.args and isinstance(c_.args[0], ast.Constant) else "C") for c_ in orders}
    if len(kinds) > 1 or bad:
        rep.violate("R8-longformat", construct, "values and index vectors are flattened in different orders (%s)" % sorted(kinds), where(f, orders[0]), "'C' for both", str(sorted(kinds)))
    else:
        rep.ok("R8-longformat", construct, "meshgrid(indexing='ij'), values and indices flattened in the same C order")


def run(prog, rep, tier):
    rep.explanation = ("Writer/reader table agreement per concrete class through the MRO, a path rule for the HDF5 dictionary writer "
                       "(every key is replaced, deleted or recursed on every path), and keyword/attribute agreement plus deep-copy wrapping "
                       "for every __copy__/__deepcopy__ in the package.")
    rep.not_decided = ["h5py / pandas / cyvcf2 behaviour, non-ASCII round trips (runtime encoding), equality of floats through CSV"]
    rep.floor("R2-overwrite", 1)
    rep.floor("R3-copies", 60)
    check_overwrite(prog, rep)
    check_copies(prog, rep, tier)
    rep.floor("R5-presence", 12)
    rep.floor("R6-whole", 12)
    rep.floor("R7-memo", 24)
    rep.floor("R8-longformat", 1)
    check_flatten_index(prog, rep)
    check_memo_defaults(prog, rep)
    check_written_dict(prog, rep)
    check_presence_guards(prog, rep)
    from rules import c16_tables
    c16_tables.run(prog, rep, tier)
