"""
C17  Sampling utilities honour their proportionality and balance guarantees  (structural necessary conditions)

  R1-outcross  outcross_shuffle: the only writes to the cross table are two-element swaps; a rejected swap is undone on every path;
               acceptance needs a strictly smaller duplicate count and updates the incumbent score; the search stops only after a complete
               pass over ALL pairs i<j without acceptance
               "preserves the multiset of entries, never increases the number of repeated individuals within a cross, and stops only when no
                single exchange of two entries reduces it"
  R2-tiles     tiled_choice: whole tiles of the option set for i < q, remainder drawn without replacement, (q, r) = divmod(nsample, n)
               "uses every option equally often up to a remainder of at most one"
  R3-sus       stochastic universal sampling: pointers equally spaced by total/k from an offset uniform on [0, total/k); cumulative weights over
               the descending order; pointer walk indexes the sorted space and appends the original index; result a[sel] reshaped to size
               "returns exactly the requested number of draws ... floor or ceiling of its expected count and never an element of zero weight"
  R4-axis      axis_shuffle shuffles exactly the slices produced by sliceaxisix(a.shape, axis) "permutes values only within the requested slices"
"""
import ast

from sa.astutil import is_guard, oriented, dump, where, kwargs_of, walk_no_nested, is_const
from sa.model import AnalysisError, body_nodoc
from sa.order import enumerate_paths, Event, names
from sa.vn import VN, Poly, parse_expr, VNUnknown

MOD = "pybrops.core.random.sampling"


def _defs(f):
    d = {}
    for n in walk_no_nested(f.node):
        if isinstance(n, ast.Assign) and len(n.targets) == 1 and isinstance(n.targets[0], ast.Name):
            d.setdefault(n.targets[0].id, []).append(n)
    return d


def _swap(st):
    """`x[i], x[j] = x[j], x[i]` -> (array name, i, j) else None"""
    if isinstance(st, ast.Assign) and len(st.targets) == 1 and isinstance(st.targets[0], ast.Tuple) and isinstance(st.value, ast.Tuple) \
            and len(st.targets[0].elts) == 2 and len(st.value.elts) == 2:
        t0, t1 = st.targets[0].elts
        v0, v1 = st.value.elts
        if all(isinstance(x, ast.Subscript) and isinstance(x.value, ast.Name) for x in (t0, t1, v0, v1)):
            if dump(t0) == dump(v1) and dump(t1) == dump(v0):
                return t0.value.id if t0.value.id == t1.value.id else "%s|%s" % (t0.value.id, t1.value.id), dump(t0.slice), dump(t1.slice)
    return None


def check_outcross(prog, rep):
    f = prog.func(MOD, "outcross_shuffle")
    rep.saw(f)
    construct = f.qualname
    ps = f.params()
    table = ps[0]
    defs = _defs(f)
    body = body_nodoc(f.node)
    # ravel view of the table
    views = [k for k, v in defs.items() if len(v) == 1 and isinstance(v[0].value, ast.Call) and isinstance(v[0].value.func, ast.Attribute)
             and v[0].value.func.attr in ("ravel", "reshape") and dump(v[0].value.func.value) == table]
    whiles = [s for s in body if isinstance(s, ast.While)]
    if len(whiles) != 1 or len(views) != 1:
        rep.unrec("R1-outcross", construct, "expected one flattened view of the table and one search loop")
        return
    X = views[0]
    wl = whiles[0]
    if not isinstance(wl.test, ast.Name):
        rep.unrec("R1-outcross", construct, "search loop condition not a flag variable")
        return
    flag = wl.test.id
    fors = [s for s in wl.body if isinstance(s, ast.For)]
    if len(fors) != 1:
        rep.unrec("R1-outcross", construct, "expected one scan over the exchange list inside the search loop")
        return
    scan = fors[0]
    good = True
    # ---- every store into the table / its view is a swap
    for n in walk_no_nested(f.node):
        if isinstance(n, ast.Subscript) and isinstance(n.ctx, ast.Store) and isinstance(n.value, ast.Name) and n.value.id in (X, table):
            par_ok = False
            for st in ast.walk(f.node):
                if isinstance(st, ast.Assign) and any(n is e for t in st.targets for e in ast.walk(t)):
                    par_ok = _swap(st) is not None
            if not par_ok:
                rep.violate("R1-outcross", construct, "the cross table is written by something other than a two-element swap (the multiset of entries is not preserved)",
                            where(f, n), "%s[i], %s[j] = %s[j], %s[i]" % (X, X, X, X), dump(n)[:50])
                good = False
    # ---- scan body: swap; score; accept (strict <, update, flag, break) ; else undo
    def classify(st):
        sw = _swap(st)
        if sw is not None:
            return [Event("swap", st, sw)]
        if isinstance(st, ast.Assign) and len(st.targets) == 1 and isinstance(st.targets[0], ast.Name):
            v = st.value
            if isinstance(v, ast.Call) and isinstance(v.func, ast.Name) and v.func.id in objfns:
                arg = dump(v.args[0]) if v.args else None
                return [Event("score", st, (st.targets[0].id, arg))]
            return [Event("set:" + st.targets[0].id, st, v)]
        return [Event("?" + dump(st)[:30], st)]

    objfns = {n.name for n in body if isinstance(n, ast.FunctionDef)}
    # the objective may also be a function of the same module (a nested function moved out): one that scores the table before the scan and inside it
    modfn = {}
    for n_ in ast.walk(f.node):
        if isinstance(n_, ast.Assign) and isinstance(n_.value, ast.Call) and isinstance(n_.value.func, ast.Name) and n_.value.func.id in f.module.functions \
                and n_.value.func.id != f.name and len(n_.value.args) == 1:
            modfn.setdefault(n_.value.func.id, []).append(n_)
    for nm_, sites in modfn.items():
        if any(x in list(ast.walk(scan)) for x in sites) and any(x not in list(ast.walk(scan)) for x in sites):
            objfns.add(nm_)
    objnodes = [n for n in body if isinstance(n, ast.FunctionDef)] + [f.module.functions[nm_].node for nm_ in sorted(objfns) if nm_ in f.module.functions]
    paths = enumerate_paths(scan.body, classify, cond_events=lambda e: [])
    inc = None
    for k, v in defs.items():
        for a in v:
            if isinstance(a.value, ast.Call) and isinstance(a.value.func, ast.Name) and a.value.func.id in objfns and a not in [x for x in ast.walk(scan)]:
                inc = k
    if inc is None:
        rep.unrec("R1-outcross", construct, "incumbent score not initialised from the objective")
        return
    accepted = rejected = 0
    for p in paths:
        evs = [e for e in p if not e.name.startswith("<") or e.name in ("<break>", "<if>")]
        w = [e.name for e in evs if e.name != "<if>"]
        if any(x.startswith("?") for x in w):
            rep.unrec("R1-outcross", construct, "scan statement not modelled: %s" % w)
            good = False
            continue
        swaps = [e for e in evs if e.name == "swap"]
        conds = [e for e in evs if e.name == "<if>"]
        if not swaps or w[0] != "swap" or "score" not in w or w.index("score") != 1:
            rep.violate("R1-outcross", construct, "a scan step does not start with (swap, evaluate): %s" % " ".join(w), where(f, scan), "swap score ...", " ".join(w))
            good = False
            continue
        sc = [e for e in evs if e.name == "score"][0]
        if sc.data[1] != table:
            rep.violate("R1-outcross", construct, "candidate is scored on %s, not on the cross table" % sc.data[1], where(f, sc.node), table, str(sc.data[1]))
            good = False
        took = None
        for c in conds:
            test, taken = c.data
            if isinstance(test, ast.Compare) and len(test.ops) == 1 and {dump(test.left), dump(test.comparators[0])} == {sc.data[0], inc}:
                op = type(test.ops[0])
                lt = (op is ast.Lt and dump(test.left) == sc.data[0]) or (op is ast.Gt and dump(test.left) == inc)
                le = (op is ast.LtE and dump(test.left) == sc.data[0]) or (op is ast.GtE and dump(test.left) == inc)
                if lt:
                    took = taken
                elif le:
                    rep.violate("R1-outcross", construct, "an exchange is accepted when it does not strictly reduce the duplicate count (%s): the search may never "
                                "terminate / accepts neutral moves" % dump(test), where(f, test), "%s < %s" % (sc.data[0], inc), dump(test))
                    good = False
                    took = taken
                else:
                    rep.violate("R1-outcross", construct, "acceptance test %s is not `candidate score < incumbent score`" % dump(test), where(f, test),
                                "%s < %s" % (sc.data[0], inc), dump(test))
                    good = False
                    took = taken
        if took is None:
            rep.unrec("R1-outcross", construct, "acceptance condition not found on a scan path")
            good = False
            continue
        if took:
            accepted += 1
            if len(swaps) != 1:
                rep.violate("R1-outcross", construct, "an accepted exchange is undone or repeated", where(f, scan), "one swap", "%d swaps" % len(swaps))
                good = False
            if "set:" + inc not in w:
                rep.violate("R1-outcross", construct, "accepting an exchange does not update the incumbent score (later candidates are compared with a stale score: "
                            "the duplicate count can increase again)", where(f, scan), "%s = %s" % (inc, sc.data[0]), "absent")
                good = False
            else:
                e = [x for x in evs if x.name == "set:" + inc][0]
                if dump(e.data) != sc.data[0]:
                    rep.violate("R1-outcross", construct, "incumbent score is set to %s, not to the accepted candidate's score" % dump(e.data), where(f, e.node),
                                sc.data[0], dump(e.data))
                    good = False
            lo = [x for x in evs if x.name.startswith("set:") and x.name != "set:" + inc]
            if not lo or not (isinstance(lo[0].data, ast.Constant) and lo[0].data.value is False):
                rep.violate("R1-outcross", construct, "accepting an exchange does not clear the local-optimum flag: the search stops although an improving "
                            "exchange was just found", where(f, scan), "local_optima = False", "absent")
                good = False
            else:
                lopt = lo[0].name[4:]
        else:
            rejected += 1
            if len(swaps) != 2:
                rep.violate("R1-outcross", construct, "a rejected exchange is not undone (%d swap(s) on the reject path): the table drifts although nothing was accepted"
                            % len(swaps), where(f, scan), "swap ... swap back", "%d swaps" % len(swaps))
                good = False
            elif swaps[0].data != swaps[1].data and (swaps[0].data[0], swaps[0].data[2], swaps[0].data[1]) != swaps[1].data:
                rep.violate("R1-outcross", construct, "the undo swaps other positions (%s) than the trial (%s)" % (swaps[1].data[1:], swaps[0].data[1:]),
                            where(f, swaps[1].node), str(swaps[0].data[1:]), str(swaps[1].data[1:]))
                good = False
            if p and p[-1].name == "<break>":
                rep.violate("R1-outcross", construct, "the scan is abandoned after a rejected exchange: remaining exchanges are never tried", where(f, p[-1].node))
                good = False
    if accepted == 0 or rejected == 0:
        rep.unrec("R1-outcross", construct, "accept/reject paths not both found")
        return
    # ---- termination: flag = not local_optima; local_optima = True before the scan
    pre = wl.body[:wl.body.index(scan)]
    post = wl.body[wl.body.index(scan) + 1:]
    lo_init = [s for s in pre if isinstance(s, ast.Assign) and isinstance(s.targets[0], ast.Name) and isinstance(s.value, ast.Constant) and s.value.value is True]
    fl = [s for s in post if isinstance(s, ast.Assign) and isinstance(s.targets[0], ast.Name) and s.targets[0].id == flag]
    if not lo_init or not fl or not (isinstance(fl[0].value, ast.UnaryOp) and isinstance(fl[0].value.op, ast.Not) and dump(fl[0].value.operand) == lo_init[0].targets[0].id):
        rep.violate("R1-outcross", construct, "the search loop does not continue exactly while the last complete scan accepted an exchange", where(f, wl),
                    "%s = not local_optima" % flag, dump(fl[0]) if fl else "absent")
        good = False
    # ---- exchange list: all pairs i<j of the flattened table (or the same-row filter with the true row length)
    it = scan.iter
    ex = defs.get(it.id, []) if isinstance(it, ast.Name) else []
    lc = None
    for a in ex:
        for n in ast.walk(a.value):
            if isinstance(n, ast.ListComp):
                lc = n
    if lc is None or len(lc.generators) != 2:
        rep.unrec("R1-outcross", construct, "exchange list is not a two-level comprehension over index pairs")
        return
    g0, g1 = lc.generators
    i, j = dump(g0.target), dump(g1.target)
    n_x = "len(%s)" % X
    ok_pairs = (dump(g0.iter) == "range(%s)" % n_x and dump(g1.iter) in ("range(%s + 1, %s)" % (i, n_x), "range(1 + %s, %s)" % (i, n_x)))
    if not ok_pairs:
        rep.violate("R1-outcross", construct, "exchange candidates are (%s in %s, %s in %s), not all pairs i < j of the flattened table"
                    % (i, dump(g0.iter), j, dump(g1.iter)), where(f, lc), "i in range(n), j in range(i+1, n)", "%s / %s" % (dump(g0.iter), dump(g1.iter)))
        good = False
    for g in (g0, g1):
        for cond in g.ifs:
            # accepted idiom: skip exchanges inside one cross:  i // R != j // R  with R the row length table.shape[1]
            okf = False
            if isinstance(cond, ast.Compare) and len(cond.ops) == 1 and isinstance(cond.ops[0], ast.NotEq):
                l, r = cond.left, cond.comparators[0]
                if all(isinstance(x, ast.BinOp) and isinstance(x.op, ast.FloorDiv) for x in (l, r)) and dump(l.right) == dump(r.right) \
                        and {dump(l.left), dump(r.left)} == {i, j}:
                    R = l.right
                    Rv = R
                    if isinstance(R, ast.Name) and R.id in defs and len(defs[R.id]) == 1:
                        Rv = defs[R.id][0].value
                    if dump(Rv) == "%s.shape[1]" % table:
                        okf = True
                    elif dump(Rv) in ("%s.shape[0]" % table, "len(%s)" % table):
                        rep.violate("R1-outcross", construct, "exchanges are filtered by i // R != j // R with R = %s (the number of crosses), not the row length: "
                                    "exchanges between different crosses are dropped from the search" % dump(Rv), where(f, cond), "%s.shape[1]" % table, dump(Rv))
                        good = False
                        okf = True
            if not okf:
                rep.unrec("R1-outcross", construct, "exchange-list filter not modelled: %s" % dump(cond)[:60])
                good = False
    if good:
        rep.ok("R1-outcross", construct, "writes are swaps only; reject path undoes the swap; accept iff score < incumbent (updates incumbent, clears flag, breaks); "
               "loop ends only after a full pass over all i<j pairs without acceptance", sample={"function": construct, "paths": len(paths)})
    # objfn: duplicates per row = sum over rows of (count - 1) over the row's unique entries
    for n in objnodes:
        if isinstance(n, ast.FunctionDef):
            adds = [x for x in ast.walk(n) if isinstance(x, ast.AugAssign) and isinstance(x.op, ast.Add)]
            uniq = [x for x in ast.walk(n) if isinstance(x, ast.Call) and dump(x.func) == "numpy.unique"]
            if len(adds) == 1 and len(uniq) == 1 and "return_counts=True" in dump(uniq[0]):
                inc = dump(adds[0].value)
                cnt = None
                for x in ast.walk(n):
                    if isinstance(x, ast.Assign) and x.value is uniq[0] and isinstance(x.targets[0], ast.Tuple):
                        cnt = dump(x.targets[0].elts[-1])
                if cnt is not None and inc in ("numpy.sum(%s - 1)" % cnt, "(%s - 1).sum()" % cnt, "numpy.sum(%s) - len(%s)" % (cnt, cnt)):
                    rep.ok("R1-outcross", construct + "#objfn", "objective = sum over rows of (unique counts - 1) = number of surplus copies of repeated individuals within a cross")
                elif cnt is not None and inc in ("numpy.sum(%s > 1)" % cnt, "(%s > 1).sum()" % cnt, "numpy.count_nonzero(%s > 1)" % cnt):
                    rep.violate("R1-outcross", construct, "the objective counts how many individuals are repeated in a cross (%s), not how many surplus copies there are: "
                                "[a,a,a] scores like [a,a,x], so the search stops although an exchange would remove a self-pairing" % inc, where(f, adds[0]),
                                "numpy.sum(%s - 1)" % cnt, inc)
                else:
                    rep.unrec("R1-outcross", construct, "objective increment %s not modelled" % inc[:50])
            else:
                # classified reformulation: equality of NEIGHBOURING columns counts duplicates only in sorted rows
                ntxt = "".join(dump(n).split())
                neigh = any(isinstance(x, ast.Compare) and isinstance(x.ops[0], ast.Eq) and "1:]" in "".join(dump(x).split()) and ":-1]" in "".join(dump(x).split())
                            for x in ast.walk(n))
                sorts = any(isinstance(x, ast.Call) and (dump(x.func).endswith(".sort") or dump(x.func) in ("numpy.sort", "sorted")) for x in ast.walk(n))
                if neigh and not sorts:
                    rep.violate("R1-outcross", construct, "the objective counts equal NEIGHBOURING entries of a row without sorting it: a repeat stored in non-adjacent columns "
                                "([a, b, a]) scores 0, so the duplicate count can increase and the search stops although an exchange would remove a self-pairing",
                                where(f, n), "sum over rows of (unique counts - 1)", ntxt[-70:])
                else:
                    rep.unrec("R1-outcross", construct, "objective function is not the within-row duplicate count")


def check_tiled(prog, rep):
    f = prog.func(MOD, "tiled_choice")
    rep.saw(f)
    construct = f.qualname
    defs = _defs(f)
    a = f.params()[0]
    vn = VN(prog, f)
    good = True
    # (q, r) = divmod(nsample, noption)
    dm = None
    for n in walk_no_nested(f.node):
        if isinstance(n, ast.Assign) and isinstance(n.targets[0], ast.Tuple) and isinstance(n.value, ast.Call) and dump(n.value.func) == "divmod":
            dm = n
    if dm is None:
        rep.unrec("R2-tiles", construct, "(q, r) = divmod(nsample, noption) not found")
        return
    q, r = [e.id for e in dm.targets[0].elts]
    ns, no = [dump(x) for x in dm.value.args]
    # whatever shape the tiling takes: a draw of the r left-over slots must say replace (numpy's default is WITH replacement)
    for c_ in walk_no_nested(f.node):
        if isinstance(c_, ast.Call) and isinstance(c_.func, ast.Attribute) and c_.func.attr == "choice":
            kw_, _ = kwargs_of(c_)
            sz_ = c_.args[1] if len(c_.args) > 1 else kw_.get("size")
            rp_ = c_.args[2] if len(c_.args) > 2 else kw_.get("replace")
            if sz_ is not None and dump(sz_) == r and rp_ is None:
                rep.violate("R2-tiles", construct, "the %s left-over slots are drawn by %s with numpy's default replace=True: one option can take several of them while another gets "
                            "none (options are no longer used within one of each other)" % (r, dump(c_)[:50]), where(f, c_), "replace=False", "default")
                return
    nsv = defs.get(ns, [None])[0]
    nov = defs.get(no, [None])[0]
    if nov is None or dump(nov.value) != "len(%s)" % a:
        rep.violate("R2-tiles", construct, "tile length %s is not the number of options len(%s)" % (dump(nov.value) if nov else no, a), where(f, dm), "len(%s)" % a,
                    dump(nov.value) if nov else no)
        good = False
    if nsv is None or dump(nsv.value) not in ("numpy.prod(size)", "int(numpy.prod(size))"):
        rep.unrec("R2-tiles", construct, "sample count not numpy.prod(size)")
        good = False
    # tiles
    loops = [n for n in walk_no_nested(f.node) if isinstance(n, ast.For)]
    tl = [l for l in loops if dump(l.iter) == "range(%s)" % q]
    # vectorised form: out[:q*n] = numpy.tile(a, q)
    tiles = [n for n in walk_no_nested(f.node) if isinstance(n, ast.Assign) and isinstance(n.value, ast.Call) and prog.dotted(f.module, n.value.func) == "numpy.tile"
             and isinstance(n.targets[0], ast.Subscript) and isinstance(n.targets[0].slice, ast.Slice)]
    if len(tl) != 1 and len(tiles) == 1:
        st = tiles[0]
        t = st.targets[0]
        out = dump(t.value)
        try:
            for s_ in walk_no_nested(f.node):
                if isinstance(s_, ast.Assign) and isinstance(s_.targets[0], ast.Name) and s_ is not dm and not isinstance(s_.value, ast.Call):
                    vn.stmt(s_)
            hi = vn.expr(t.slice.upper) if t.slice.upper is not None else None
            lo0 = t.slice.lower is None or (isinstance(t.slice.lower, ast.Constant) and t.slice.lower.value == 0)
        except VNUnknown:
            hi, lo0 = None, False
        targs = [dump(x) for x in st.value.args]
        if not lo0 or hi is None or hi != parse_expr("%s * %s" % (q, no)):
            rep.violate("R2-tiles", construct, "the tiled block is written to [%s], not to [0:q*n]" % dump(t.slice), where(f, st), "%s[:%s*%s]" % (out, q, no), dump(t))
            good = False
        if targs != [a, q]:
            rep.violate("R2-tiles", construct, "the tiled block is numpy.tile(%s), not q whole copies of the option set" % ", ".join(targs), where(f, st), "numpy.tile(%s, %s)" % (a, q),
                        dump(st.value))
            good = False
    elif len(tl) != 1 or len(tl[0].body) != 1 or not isinstance(tl[0].body[0], ast.Assign):
        # a tile loop with another trip count is a classified difference; anything else is another formulation
        cand = [l for l in loops if len(l.body) == 1 and isinstance(l.body[0], ast.Assign) and dump(l.body[0].value) == a and isinstance(l.body[0].targets[0], ast.Subscript)]
        if cand:
            rep.violate("R2-tiles", construct, "whole tiles are written for %s, not for i in range(%s)" % (dump(cand[0].iter), q), where(f, cand[0]),
                        "for i in range(%s): out[i*n:(i+1)*n] = a" % q, dump(cand[0].iter))
        else:
            rep.unrec("R2-tiles", construct, "the whole tiles are not written by a loop over range(%s) nor by numpy.tile" % q)
        return
    else:
        i = dump(tl[0].target)
        st = tl[0].body[0]
        t = st.targets[0]
        if not (isinstance(t, ast.Subscript) and isinstance(t.slice, ast.Slice)):
            rep.unrec("R2-tiles", construct, "tile store not a slice store")
            return
        out = dump(t.value)
        lo, hi = vn.expr(t.slice.lower), vn.expr(t.slice.upper)
        if lo != parse_expr("%s * %s" % (i, no)) or hi != parse_expr("(%s + 1) * %s" % (i, no)):
            rep.violate("R2-tiles", construct, "tile %s is written to [%s] instead of [i*n:(i+1)*n] (tiles overlap or leave gaps: options are not used equally often)"
                        % (i, dump(t.slice)), where(f, st), "%s[%s*%s:(%s+1)*%s]" % (out, i, no, i, no), dump(t))
            good = False
        if dump(st.value) != a:
            rep.violate("R2-tiles", construct, "a tile is filled with %s, not with the whole option set" % dump(st.value), where(f, st), a, dump(st.value))
            good = False
    # remainder
    rem = [n for n in walk_no_nested(f.node) if isinstance(n, ast.Assign) and isinstance(n.targets[0], ast.Subscript) and dump(n.targets[0].value) == out
           and n is not st]
    if len(rem) != 1:
        rep.violate("R2-tiles", construct, "the remainder after the whole tiles is not written exactly once", where(f))
        return
    rt = rem[0].targets[0]
    if not (isinstance(rt.slice, ast.Slice) and rt.slice.upper is None and vn.expr(rt.slice.lower) == parse_expr("%s * %s" % (q, no))):
        rep.violate("R2-tiles", construct, "remainder is written to [%s], not to [q*n:]" % dump(rt.slice), where(f, rem[0]), "%s[%s*%s:]" % (out, q, no), dump(rt))
        good = False
    rv = rem[0].value
    if not (isinstance(rv, ast.Call) and isinstance(rv.func, ast.Attribute) and rv.func.attr == "choice"):
        rep.unrec("R2-tiles", construct, "remainder not drawn with rng.choice")
        return
    kws, _ = kwargs_of(rv)
    args = list(rv.args)
    opt = args[0] if args else kws.get("a")
    size = args[1] if len(args) > 1 else kws.get("size")
    repl = args[2] if len(args) > 2 else kws.get("replace")
    if dump(opt) != a or dump(size) != r:
        rep.violate("R2-tiles", construct, "remainder draws %s of %s, not r = nsample mod n of the options" % (dump(size), dump(opt)), where(f, rv), "choice(%s, %s, ...)" % (a, r),
                    dump(rv)[:50])
        good = False
    # replace must be false on this path
    in_else = False
    for n in walk_no_nested(f.node):
        if isinstance(n, ast.If) and dump(n.test) == "replace" and any(rem[0] is x for s in n.orelse for x in ast.walk(s)):
            in_else = True
    if repl is None:
        rep.violate("R2-tiles", construct, "remainder is drawn with numpy's default replace=True: an option can occur twice more than another", where(f, rv), "replace=False", "default")
        good = False
    elif isinstance(repl, ast.Constant):
        if repl.value is not False:
            rep.violate("R2-tiles", construct, "remainder is drawn with replacement", where(f, rv), "replace=False", dump(repl))
            good = False
    elif not (dump(repl) == "replace" and in_else):
        rep.unrec("R2-tiles", construct, "replace argument of the remainder draw not modelled: %s" % dump(repl))
        good = False
    # shuffle then reshape(size)
    tail = dump(f.node)
    if not any(isinstance(n, ast.Call) and isinstance(n.func, ast.Attribute) and n.func.attr == "reshape" and [dump(x) for x in n.args] == ["size"] for n in walk_no_nested(f.node)):
        rep.violate("R2-tiles", construct, "result is not reshaped to the requested size", where(f))
        good = False
    if good:
        rep.ok("R2-tiles", construct, "(q,r)=divmod(prod(size), len(a)); out[i*n:(i+1)*n]=a for i<q; out[q*n:]=choice(a, r) without replacement; reshape(size)")


def check_sus(prog, rep):
    f = prog.func(MOD, "stochastic_universal_sampling")
    rep.saw(f)
    construct = f.qualname
    a, p, size, rng = f.params()[:4]
    defs = _defs(f)
    vn = VN(prog, f)
    # normalise straight-line prefix
    try:
        for st in body_nodoc(f.node):
            if is_guard(st):
                continue
            if isinstance(st, ast.If):
                rets = [x for x in ast.walk(st) if isinstance(x, ast.Return)]
                if not rets:
                    continue
                # another way out of the function: what it returns must satisfy the same floor / ceiling clause
                for rt in rets:
                    v = rt.value
                    tc = isinstance(v, ast.Call) and isinstance(v.func, ast.Name) and v.func.id == "tiled_choice"
                    kw_, _ = kwargs_of(v) if isinstance(v, ast.Call) else ({}, [])
                    rp_ = (v.args[2] if len(v.args) > 2 else kw_.get("replace")) if tc else None
                    if tc and (rp_ is None or (isinstance(rp_, ast.Constant) and rp_.value is not False)):
                        rep.violate("R3-sus", construct, "when %s the function returns %s: tiled_choice tiles only with replace=False and its default is replace=True, so this path is a "
                                    "plain draw with replacement - an element can be drawn far more often than the ceiling of its expected count" % (dump(st.test)[:40], dump(v)[:50]),
                                    where(f, rt), "the pointer walk (or tiled_choice(..., replace=False))", dump(v)[:50])
                    else:
                        rep.unrec("R3-sus", construct, "another return path (%s) is not the pointer walk: %s" % (dump(st.test)[:40], dump(v)[:50] if v is not None else "None"))
                return
            if isinstance(st, (ast.For, ast.While)):
                break
            vn.stmt(st)
    except VNUnknown as e:
        rep.unrec("R3-sus", construct, "prefix not straight-line: %s" % e)
        return
    good = True
    tot = parse_expr("%s.sum()" % p)
    k = parse_expr("numpy.prod(%s)" % size, prog=prog, func=f)
    step_ref = tot * k.pow(-1)
    # pointer vector: name iterated by the outer for
    loops = [s for s in body_nodoc(f.node) if isinstance(s, ast.For)]
    if len(loops) != 1 or not isinstance(loops[0].iter, ast.Name):
        rep.unrec("R3-sus", construct, "pointer loop not found")
        return
    lp = loops[0]
    ptrs = defs.get(lp.iter.id, [])
    if len(ptrs) != 1 or not isinstance(ptrs[0].value, ast.Call):
        rep.unrec("R3-sus", construct, "pointer vector not a single call")
        return
    pc = ptrs[0].value
    d = prog.dotted(f.module, pc.func)
    kws, _ = kwargs_of(pc)
    start = step = None
    env_vn = VN(prog, f, env=vn.env)
    if d == "numpy.arange" and len(pc.args) == 3:
        start, stop, step = [env_vn.expr(x) for x in pc.args]
        if stop != tot:
            rep.violate("R3-sus", construct, "pointers run up to %s, not up to the total weight" % stop.show(), where(f, pc), tot.show(), stop.show())
            good = False
    elif d == "numpy.linspace" and len(pc.args) >= 3 and "endpoint" in kws and is_const(kws["endpoint"], False):
        s0, s1, num = [env_vn.expr(x) for x in pc.args[:3]]
        start = s0
        step = (s1 - s0) * num.pow(-1)
    else:
        rep.unrec("R3-sus", construct, "pointer construction not modelled: %s" % dump(pc)[:60])
        return
    if step != step_ref:
        rep.violate("R3-sus", construct, "pointer spacing is %s, not total weight / number of draws (%s): elements are not selected floor/ceil of their expected count"
                    % (step.show(), step_ref.show()), where(f, pc), step_ref.show(), step.show())
        good = False
    # start = offset ~ U[0, step)
    off = None
    for kname, v in defs.items():
        for asg in v:
            c = asg.value
            if isinstance(c, ast.Call) and isinstance(c.func, ast.Attribute) and c.func.attr == "uniform" and dump(c.func.value) == rng:
                off = (kname, c)
    if off is None:
        rep.unrec("R3-sus", construct, "random offset not drawn with rng.uniform")
        return
    if start != env_vn.env.get(off[0]):
        rep.violate("R3-sus", construct, "first pointer is %s, not the random offset" % start.show(), where(f, pc), off[0], start.show())
        good = False
    # uniform(low, high): positional or by the keyword names both numpy generators use
    ukw = {k.arg: k.value for k in off[1].keywords}
    uargs = list(off[1].args[:2])
    if len(uargs) < 1 and "low" in ukw:
        uargs.append(ukw["low"])
    if len(uargs) < 2 and "high" in ukw:
        uargs.append(ukw["high"])
    if len(uargs) != 2:
        rep.unrec("R3-sus", construct, "bounds of the offset draw not found: %s" % dump(off[1])[:50])
        return
    lo, hi = [VN(prog, f, env={k2: v2 for k2, v2 in vn.env.items() if k2 != off[0]}).expr(x) for x in uargs]
    if not (lo.const_value() == 0 and hi == step_ref):
        rep.violate("R3-sus", construct, "offset is uniform on [%s, %s), not on [0, total/k)" % (lo.show(), hi.show()), where(f, off[1]), "uniform(0, %s)" % step_ref.show(),
                    "uniform(%s, %s)" % (lo.show(), hi.show()))
        good = False
    # index spaces
    order = cum = None
    for kname, v in defs.items():
        for asg in v:
            t = dump(asg.value)
            if t in ("%s.argsort()[::-1]" % p, "numpy.argsort(%s)[::-1]" % p, "numpy.argsort(-%s)" % p, "(-%s).argsort()" % p):
                order = kname
    for kname, v in defs.items():
        for asg in v:
            t = dump(asg.value)
            if order and t in ("%s[%s].cumsum()" % (p, order), "numpy.cumsum(%s[%s])" % (p, order)):
                cum = kname
    cum_space = "sorted"
    if cum is None:
        for kname, v in defs.items():
            for asg in v:
                if dump(asg.value) in ("%s.cumsum()" % p, "numpy.cumsum(%s)" % p):
                    cum, cum_space = kname, "orig"
    if cum is None or (order is None and cum_space == "sorted"):
        rep.unrec("R3-sus", construct, "descending order / cumulative weights not found in the modelled form")
        return
    # walk: while cum[ix] < ptr: ix += 1 ; sel.append(order[ix])
    ptr = dump(lp.target)
    wl = [s for s in lp.body if isinstance(s, ast.While)]
    ap = [s for s in lp.body if isinstance(s, ast.Expr) and isinstance(s.value, ast.Call) and isinstance(s.value.func, ast.Attribute) and s.value.func.attr == "append"]
    if len(wl) != 1 or len(ap) != 1 or len(lp.body) != 2:
        rep.unrec("R3-sus", construct, "pointer loop body is not (advance while, append)")
        return
    t = wl[0].test
    t = oriented(t, lambda e: isinstance(e, ast.Subscript) and dump(e.value) == cum) or t
    ixn = None
    if isinstance(t, ast.Compare) and len(t.ops) == 1 and isinstance(t.left, ast.Subscript) and dump(t.left.value) == cum and dump(t.comparators[0]) == ptr:
        ixn = dump(t.left.slice)
        if isinstance(t.ops[0], ast.LtE):
            rep.violate("R3-sus", construct, "walk advances while cumulative weight <= pointer: an element of zero weight following a pointer hit can be selected",
                        where(f, t), "%s[%s] < %s" % (cum, ixn, ptr), dump(t))
            good = False
        elif not isinstance(t.ops[0], ast.Lt):
            rep.violate("R3-sus", construct, "walk condition %s" % dump(t), where(f, t), "%s[ix] < %s" % (cum, ptr), dump(t))
            good = False
    else:
        rep.violate("R3-sus", construct, "pointer walk does not compare the cumulative sorted weights with the pointer: %s" % dump(t), where(f, t), "%s[ix] < %s" % (cum, ptr), dump(t))
        good = False
    av = ap[0].value.args[0]
    if cum_space == "orig":
        if dump(av) != (ixn or "ix"):
            rep.violate("R3-sus", construct, "cumulative weights are in the original order but the selected element is %s (index spaces differ)" % dump(av),
                        where(f, av), ixn or "ix", dump(av))
            good = False
    elif not (isinstance(av, ast.Subscript) and dump(av.value) == order and dump(av.slice) == (ixn or "ix")):
        rep.violate("R3-sus", construct, "selected element is %s: the position in the sorted space must be mapped back through %s[...]" % (dump(av), order), where(f, av),
                    "%s[%s]" % (order, ixn), dump(av))
        good = False
    # result a[sel] reshaped
    ret = [s for s in body_nodoc(f.node) if isinstance(s, ast.Return)]
    if not (ret and isinstance(ret[0].value, ast.Subscript) and dump(ret[0].value.value) == a):
        rep.violate("R3-sus", construct, "result is not the options indexed by the selection", where(f), "%s[sel]" % a, dump(ret[0].value) if ret else "none")
        good = False
    if not any(isinstance(n, ast.Call) and isinstance(n.func, ast.Attribute) and n.func.attr == "reshape" and [dump(x) for x in n.args] == [size] for n in walk_no_nested(f.node)):
        rep.violate("R3-sus", construct, "selection is not reshaped to the requested size", where(f))
        good = False
    if good:
        rep.ok("R3-sus", construct, "pointers start at offset~U[0,tot/k), spacing tot/k up to tot; cumulative weights over descending order; walk in sorted space, "
               "append original index; a[sel].reshape(size)", sample={"function": construct, "spacing": step_ref.show()})


def check_axis(prog, rep):
    f = prog.func(MOD, "axis_shuffle")
    rep.saw(f)
    a, axis, rng = f.params()[:3]
    loops = [s for s in body_nodoc(f.node) if isinstance(s, ast.For)]
    if len(loops) != 1:
        rep.unrec("R4-axis", f.qualname, "expected one loop over slices")
        return
    lp = loops[0]
    # the axis collection is re-iterated by the slice generator (membership test at every recursion node): it must be a real tuple / list
    for n in walk_no_nested(f.node):
        if isinstance(n, ast.Assign) and len(n.targets) == 1 and dump(n.targets[0]) == axis:
            v = n.value
            if isinstance(v, ast.GeneratorExp) or (isinstance(v, ast.Call) and dump(v.func) in ("map", "filter", "zip", "iter", "reversed")):
                rep.violate("R4-axis", f.qualname, "the axis collection is rebound to a one-shot iterator (%s): the slice generator tests membership in it once per node, so after the "
                            "first pass the requested axes are no longer fixed and values move between the requested slices" % dump(v)[:50], where(f, n),
                            "tuple(%s)" % dump(v)[:40], dump(v)[:50])
                return
    if dump(lp.iter) != "sliceaxisix(%s.shape, %s)" % (a, axis):
        rep.violate("R4-axis", f.qualname, "slices come from %s, not from sliceaxisix(%s.shape, %s)" % (dump(lp.iter), a, axis), where(f, lp),
                    "sliceaxisix(%s.shape, %s)" % (a, axis), dump(lp.iter))
        return
    s = dump(lp.target)
    if len(lp.body) == 1 and dump(lp.body[0]) == "%s.shuffle(%s[%s])" % (rng, a, s):
        rep.ok("R4-axis", f.qualname, "for s in sliceaxisix(a.shape, axis): rng.shuffle(a[s])")
    else:
        rep.violate("R4-axis", f.qualname, "loop body is %s, not rng.shuffle(a[s])" % dump(lp.body[0])[:50], where(f, lp.body[0]), "%s.shuffle(%s[%s])" % (rng, a, s),
                    dump(lp.body[0])[:50])
    # sliceaxisix: integer positions on the listed axes, full slices elsewhere
    g = prog.func("pybrops.core.util.array", "sliceaxisix")
    rep.saw(g)
    from sa.astutil import normalise_nested
    txt = dump(normalise_nested(g.node, ("l", "s", "a"), ("shape", "axis")))
    if txt.count("slice(None)") >= 2 and "range(s[len(l)])" in txt and "len(l) in a" in txt:
        rep.ok("R4-axis", g.qualname, "yields index tuples with range(shape[k]) on listed axes and slice(None) elsewhere")
    else:
        # a generator that matches the current depth against the HEAD of the axis tuple (len(l) == a[0], then a[1:]) visits the listed axes in ascending order only:
        # without sorting the tuple first, axis=(1, 0) leaves axis 0 free and values move between slices
        heads = [c for c in ast.walk(g.node) if isinstance(c, ast.Compare) and len(c.ops) == 1 and isinstance(c.ops[0], ast.Eq)
                 and any(isinstance(x, ast.Subscript) and isinstance(x.slice, ast.Constant) and x.slice.value == 0 and isinstance(x.value, ast.Name) for x in [c.left, c.comparators[0]])
                 and any(isinstance(x, ast.Call) and dump(x.func) == "len" for x in [c.left, c.comparators[0]])]
        sorts = [c for c in ast.walk(g.node) if isinstance(c, ast.Call) and (dump(c.func) in ("sorted", "numpy.sort", "numpy.unique") or (isinstance(c.func, ast.Attribute) and c.func.attr == "sort"))]
        if heads and not sorts and "in a" not in txt:
            rep.violate("R4-axis", g.qualname, "the depth is matched against the head of the axis tuple (%s) and the tuple is never sorted: axes given in non-ascending order "
                        "(e.g. (1, 0)) are not all fixed, so a shuffle permutes values across the requested slices" % dump(heads[0]), where(g, heads[0]),
                        "membership test `len(l) in a` (or sort the axes first)", dump(heads[0]))
        else:
            rep.unrec("R4-axis", g.qualname, "slice generator not in the modelled form")


def run(prog, rep, tier):
    rep.explanation = ("Pairing/termination rule over every path of the outcross exchange search, tiling rule for tiled sampling, spec congruence (algebraic "
                       "normal form) of pointer spacing and offset plus index-space typing for stochastic universal sampling, slice-generator agreement for "
                       "axis_shuffle.")
    rep.not_decided = ["exact output length and floor/ceil counts under floating-point pointer spacing (runtime quantities)", "whether ravel() returned a view"]
    for r, n in (("R1-outcross", 2), ("R2-tiles", 1), ("R3-sus", 1), ("R4-axis", 2)):
        rep.floor(r, n)
    from sa.report import second_reading
    fs = [f_ for m_ in prog.modules.values() if any(m_.name.startswith(p_) for p_ in ('pybrops.core.random.sampling', 'pybrops.core.util.array')) for f_ in list(m_.functions.values()) + [g_ for c_ in m_.classes.values() for g_ in c_.methods.values()]]
    for rule_ in (check_outcross, check_tiled, check_sus, check_axis):
        second_reading(rep, fs, lambda r_, rule_=rule_: rule_(prog, r_))
