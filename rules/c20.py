"""
C20  The breeding-program loop applies operators in order on independent replicates.

Rules (DESIGN.md §4 C20):
  R1-order     every path through one iteration of advance()/evolve() is the required event word
               "applies parent selection, mating, evaluation and survivor selection in that order
                exactly once per generation ... logging after every step ... time index grows by one"
  R2-handoff   each operator/log call receives the same-named current-state attributes, the clock and
               t_max, and the operator's result is unpacked into the five state attributes in the
               canonical order "handing each operator the state returned by its predecessor"
  R3-reset     reset() deep-copies each start container into the same-named working container, t_cur=0
               "every replicate starts from a state equal to the initial one"
  R4-readonly  start_* is stored only by __init__/initialize/its setter and read only as a deepcopy
               argument or in a None test "the stored initial state is never modified"
"""
import ast

from sa.ctorflow import wire

from sa.astutil import field_of, kwargs_of, dump, where, is_const, walk_no_nested
from sa.model import AnalysisError, body_nodoc
from sa.order import enumerate_paths, Event, calls_in_order, names

STATE = ["genome", "geno", "pheno", "bval", "gmod"]
START = ["start_" + s for s in STATE]
OPS = {"pselect": "pselop", "mate": "mateop", "evaluate": "evalop", "sselect": "sselop", "initialize": "initop"}
ADV_WORD = ["pselect", "log_pselect", "mate", "log_mate", "evaluate", "log_evaluate",
            "sselect", "log_sselect", "tick"]
PURE_CALLS = {"print", "range", "format", "len", "str", "int", "is_initialized"}
MOD = "pybrops.breed.arch.RecurrentSelectionBreedingProgram"
CLS = "RecurrentSelectionBreedingProgram"


class Ctx:
    def __init__(self, prog, rep, cls):
        self.prog, self.rep, self.cls = prog, rep, cls


def classify_factory(ctx, func, depth=0):
    """Build the statement classifier for methods of the programme class."""
    prog, rep, cls = ctx.prog, ctx.rep, ctx.cls

    def classify(st):
        evs = []
        for call in calls_in_order(st):
            f = call.func
            if isinstance(f, ast.Attribute):
                recv = field_of(f.value)
                if f.attr in OPS and recv is not None and recv.endswith("op"):
                    evs.append(Event(f.attr, call, {"recv": recv, "stmt": st}))
                    continue
                if f.attr.startswith("log_"):
                    evs.append(Event(f.attr, call, {"recv": dump(f.value), "stmt": st}))
                    continue
                if isinstance(f.value, ast.Name) and f.value.id == "self":
                    if f.attr in ("reset", "advance", "initialize"):
                        evs.append(Event(f.attr, call, {"stmt": st}))
                        continue
                    if f.attr in PURE_CALLS:
                        continue
                    callee = prog.lookup_method(cls, f.attr)
                    if callee is not None and depth < 3:
                        sub = enumerate_paths(body_nodoc(callee.node), classify_factory(ctx, callee, depth + 1))
                        sub = [[e for e in p if e.name not in ("<return>",)] for p in sub]
                        if len(sub) == 1:
                            rep.saw(callee)
                            evs.extend(sub[0])
                            continue
                    evs.append(Event("?call:self." + f.attr, call))
                    continue
                if f.attr in PURE_CALLS:
                    continue
                if f.attr == "deepcopy" or f.attr == "copy":
                    evs.append(Event("<copy>", call))
                    continue
                evs.append(Event("?call:" + dump(f), call))
            elif isinstance(f, ast.Name):
                if f.id in PURE_CALLS or f.id.startswith("check_"):
                    continue
                evs.append(Event("?call:" + f.id, call))
            else:
                evs.append(Event("?call:" + dump(f), call))
        # statement-level effects
        if isinstance(st, ast.AugAssign):
            fld = field_of(st.target)
            if fld == "t_cur":
                if isinstance(st.op, ast.Add) and is_const(st.value, 1):
                    evs.append(Event("tick", st))
                else:
                    evs.append(Event("!clock", st, "t_cur %s= %s" % (type(st.op).__name__, dump(st.value))))
            elif isinstance(st.target, ast.Attribute) and st.target.attr == "rep" and isinstance(st.op, ast.Add) \
                    and is_const(st.value, 1):
                evs.append(Event("rep++", st))
            elif fld is not None:
                evs.append(Event("?store:" + fld, st))
        elif isinstance(st, ast.Assign):
            for t in st.targets:
                elts = t.elts if isinstance(t, ast.Tuple) else [t]
                for e in elts:
                    fld = field_of(e)
                    if fld == "t_cur":
                        v = st.value
                        if (isinstance(v, ast.BinOp) and isinstance(v.op, ast.Add)
                                and ((field_of(v.left) == "t_cur" and is_const(v.right, 1))
                                     or (field_of(v.right) == "t_cur" and is_const(v.left, 1)))):
                            evs.append(Event("tick", st))
                        elif is_const(v, 0):
                            evs.append(Event("clock=0", st))
                        else:
                            evs.append(Event("!clock", st, "t_cur = %s" % dump(v)))
                    elif fld in STATE or fld in START:
                        # a store to a state container: fine if it is the unpacking of an operator call
                        # (validated by R2) -- otherwise an event of its own
                        if not (isinstance(st.value, ast.Call) and isinstance(st.value.func, ast.Attribute)
                                and st.value.func.attr in OPS):
                            evs.append(Event("store:" + fld, st, st.value))
                    elif isinstance(e, ast.Name) and isinstance(st.value, (ast.Dict, ast.Call)) and (
                            (isinstance(st.value, ast.Dict) and not st.value.keys)
                            or (isinstance(st.value, ast.Call) and isinstance(st.value.func, ast.Name)
                                and st.value.func.id == "dict" and not st.value.args and not st.value.keywords)):
                        evs.append(Event("<fresh:%s>" % e.id, st))
        return evs

    return classify


def _word_diff(got, want):
    if got == want:
        return None
    missing = [w for w in want if got.count(w) < want.count(w)]
    extra = [g for g in got if got.count(g) > want.count(g)]
    if missing:
        return "event(s) missing on a path: %s" % ",".join(sorted(set(missing)))
    if extra:
        return "event(s) repeated or unexpected on a path: %s" % ",".join(sorted(set(extra)))
    return "events out of order: %s" % " ".join(got)


def check_word(rep, rule, func, paths, want, optional=(), loopnode=None):
    """every path (markers stripped) must equal `want`, modulo the optional events"""
    construct = func.qualname
    bad = False
    for p in paths:
        term = p[-1].name if p and p[-1].name in ("<return>", "<break>", "<continue>") else None
        got = names(p)
        unknown = [g for g in got if g.startswith("?")]
        if unknown:
            rep.unrec(rule, construct, "statement not modelled on a path: %s" % ", ".join(sorted(set(unknown))))
            bad = True
            continue
        clock = [e for e in p if e.name == "!clock"]
        if clock:
            rep.violate(rule, construct, "clock is not advanced by exactly one: %s" % clock[0].data,
                        where(func, clock[0].node), "t_cur += 1", clock[0].data)
            bad = True
            continue
        stores = [g for g in got if g.startswith("store:")]
        if stores:
            ev = [e for e in p if e.name.startswith("store:")][0]
            rep.violate(rule, construct,
                        "state container %s assigned between operators from %s" % (ev.name[6:], dump(ev.data)),
                        where(func, ev.node), "state changes only through operator results", dump(ev.data))
            bad = True
            continue
        core = [g for g in got if g not in optional or g in want]
        # optional events may appear at most once, at their designated place: handled by trying both
        cands = [want, [w for w in want if w not in optional]]
        if term in ("<break>", "<return>", "<continue>") and got != want and [g for g in got] not in cands:
            d = "iteration left early (%s) after: %s" % (term, " ".join(got) or "<nothing>")
            rep.violate(rule, construct, d, where(func, p[-1].node), " ".join(want), " ".join(got))
            bad = True
            continue
        if got in cands:
            continue
        d = _word_diff(got, want)
        rep.violate(rule, construct, d, where(func, loopnode or func.node), " ".join(want), " ".join(got))
        bad = True
    return not bad


def operator_params(prog, opname):
    """parameter names of the abstract operator method (for positional arguments)"""
    table = {"pselect": ("pybrops.breed.op.psel.ParentSelectionOperator", "ParentSelectionOperator"),
             "mate": ("pybrops.breed.op.mate.MatingOperator", "MatingOperator"),
             "evaluate": ("pybrops.breed.op.eval.EvaluationOperator", "EvaluationOperator"),
             "sselect": ("pybrops.breed.op.ssel.SurvivorSelectionOperator", "SurvivorSelectionOperator"),
             "initialize": ("pybrops.breed.op.init.InitializationOperator", "InitializationOperator")}
    mod, cname = table[opname]
    c = prog.get_class(cname, mod)
    f = prog.own_method(c, opname)
    return [p for p in f.params() if p != "self"]


def bound_args(prog, call, opname):
    kws, stars = kwargs_of(call)
    if call.args:
        if opname in OPS:
            ps = operator_params(prog, opname)
            for p, a in zip(ps, call.args):
                kws.setdefault(p, a)
        else:
            raise AnalysisError("positional arguments in %s call not modelled" % opname)
    return kws, stars


def check_handoff(ctx, func, path, need_mcfg_bound=True):
    """R2 on one path: every operator and log call on it"""
    rep, prog = ctx.rep, ctx.prog
    construct = func.qualname
    mcfg_name = None
    last_fresh = {}   # misc var -> index of fresh event
    last_op_idx = -1
    last_op_misc = None
    for i, e in enumerate(path):
        if e.name.startswith("<fresh:"):
            last_fresh[e.name[7:-1]] = i
            continue
        is_op = e.name in OPS and e.name != "initialize"
        is_log = e.name.startswith("log_")
        if not (is_op or is_log):
            continue
        call = e.node
        inst = "%s@%s" % (e.name, construct)
        ctx.rep.call_sites += 1
        if is_op:
            want_recv = OPS[e.name]
            if e.data["recv"] != want_recv:
                rep.violate("R2-handoff", construct,
                            "%s() is called on self.%s instead of self.%s" % (e.name, e.data["recv"], want_recv),
                            where(func, call), "self._" + want_recv, "self." + e.data["recv"])
                continue
        try:
            kws, stars = bound_args(prog, call, e.name)
        except AnalysisError as ex:
            rep.unrec("R2-handoff", construct, str(ex))
            continue
        ok = True
        hidden = [st_ for st_ in stars if not isinstance(st_, ast.Name)]
        if hidden and any(kws.get(k) is None for k in STATE + ["t_cur", "t_max"]):
            rep.unrec("R2-handoff", construct, "%s() receives keywords through **%s: which state it is handed is not visible at the call" % (e.name, dump(hidden[0])[:40]))
            continue
        for k in STATE + ["t_cur", "t_max"]:
            v = kws.get(k)
            if v is None:
                rep.violate("R2-handoff", construct, "%s() is not given %s" % (e.name, k), where(func, call),
                            "%s=self.%s" % (k, k), "absent")
                ok = False
                continue
            fld = field_of(v)
            if fld == k:
                continue
            ok = False
            if fld is not None and (fld in STATE or fld in START or fld in ("t_cur", "t_max")):
                rep.violate("R2-handoff", construct,
                            "%s() receives %s from self.%s" % (e.name, k, fld), where(func, call),
                            "%s=self.%s" % (k, k), "%s=%s" % (k, dump(v)))
            elif k == "t_cur" and {field_of(n) for n in ast.walk(v) if isinstance(n, ast.Attribute)} == {"t_cur"}:
                rep.violate("R2-handoff", construct,
                            "%s() receives a time index that is not the clock: %s" % (e.name, dump(v)),
                            where(func, call), "t_cur=self.t_cur", dump(v))
            else:
                rep.unrec("R2-handoff", construct, "%s(): argument %s=%s not modelled" % (e.name, k, dump(v)))
        # mcfg
        if e.name in ("mate", "log_pselect", "log_mate"):
            v = kws.get("mcfg")
            if v is None:
                rep.violate("R2-handoff", construct, "%s() is not given mcfg" % e.name, where(func, call),
                            "mcfg=<result of pselect>", "absent")
                ok = False
            elif not (isinstance(v, ast.Name) and v.id == mcfg_name):
                if mcfg_name is None and not need_mcfg_bound:
                    pass
                else:
                    rep.violate("R2-handoff", construct,
                                "%s() receives mcfg=%s which is not the configuration returned by pselect in this cycle"
                                % (e.name, dump(v)), where(func, call), "mcfg=%s" % mcfg_name, dump(v))
                    ok = False
        # misc: informational only (the statement does not speak about miscout)
        if is_op:
            v = kws.get("miscout")
            mname = v.id if isinstance(v, ast.Name) else None
            if mname is None or last_fresh.get(mname, -1) <= last_op_idx:
                rep.info("R2-handoff", construct, "%s(): miscout is not a dict created after the previous operator" % e.name)
            last_op_idx = i
            last_op_misc = mname
            # result unpacking
            st = e.data["stmt"]
            tgt = None
            if isinstance(st, ast.Assign) and st.value is call and len(st.targets) == 1:
                tgt = st.targets[0]
            if tgt is None or not isinstance(tgt, ast.Tuple):
                rep.violate("R2-handoff", construct, "result of %s() is not unpacked into the state containers" % e.name,
                            where(func, call), "self.genome, self.geno, self.pheno, self.bval, self.gmod = ...",
                            dump(st)[:80])
                continue
            elts = list(tgt.elts)
            if e.name == "pselect":
                if len(elts) == 6 and isinstance(elts[0], ast.Name):
                    mcfg_name = elts[0].id
                    elts = elts[1:]
                else:
                    rep.violate("R2-handoff", construct, "pselect() result is not unpacked as (mcfg, genome, geno, pheno, bval, gmod)",
                                where(func, call), "6 targets, configuration first", dump(tgt))
                    continue
            got = [field_of(x) for x in elts]
            if got != STATE:
                if None in got:
                    rep.unrec("R2-handoff", construct, "%s(): result target %s not modelled" % (e.name, dump(tgt)))
                else:
                    rep.violate("R2-handoff", construct,
                                "%s() result unpacked into (%s)" % (e.name, ", ".join(got)), where(func, call),
                                ", ".join(STATE), ", ".join(got))
                continue
        else:
            # log call: **misc of the preceding operator (informational)
            if not any(isinstance(s, ast.Name) and s.id == last_op_misc for s in stars):
                rep.info("R2-handoff", construct, "%s(): does not forward **misc of the preceding operator" % e.name)
        if ok:
            rep.ok("R2-handoff", inst, "%s receives genome,geno,pheno,bval,gmod,t_cur,t_max from the same-named attributes%s"
                   % (e.name, "; result -> (%s)" % ", ".join(STATE) if is_op else ""))


def find_loop(func, kind=ast.For):
    loops = [s for s in body_nodoc(func.node) if isinstance(s, kind)]
    if len(loops) != 1:
        raise AnalysisError("%s: expected exactly one top-level loop, found %d" % (func.qualname, len(loops)))
    return loops[0]


def _memo_lifetime(f, memo, prog=None):
    """'local' when the memo handed to deepcopy is a dictionary created inside this call; 'persistent' when it is a parameter with a mutable default,
    an attribute or a global; 'unknown' otherwise"""
    def fresh(v):
        return isinstance(v, ast.Dict) or (isinstance(v, ast.Call) and dump(v.func) == "dict")
    if fresh(memo):
        return "local"
    if isinstance(memo, ast.Attribute):
        return "persistent"
    if isinstance(memo, ast.Name):
        a = f.node.args
        pos = a.posonlyargs + a.args
        pos_names = [x.arg for x in pos]
        defaults = dict(zip([x.arg for x in pos[len(pos) - len(a.defaults):]], a.defaults))
        defaults.update({x.arg: d for x, d in zip(a.kwonlyargs, a.kw_defaults) if d is not None})
        stores = [n for n in ast.walk(f.node) if isinstance(n, ast.Assign) and any(isinstance(t, ast.Name) and t.id == memo.id for t in n.targets)]
        params = {x.arg for x in pos + a.kwonlyargs}
        if memo.id in params:
            d = defaults.get(memo.id)
            if d is not None and (isinstance(d, (ast.Dict, ast.List, ast.Set)) or (isinstance(d, ast.Call) and dump(d.func) in ("dict", "list", "set"))):
                return "persistent"
            # a parameter (default None, replaced by a fresh dictionary inside): as long-lived as what the callers inside the class hand in
            if not ((d is None or (isinstance(d, ast.Constant) and d.value is None)) and (not stores or all(fresh(s_.value) for s_ in stores))) or prog is None or f.cls is None:
                return "unknown"
            verdict = "local"
            for g in f.cls.methods.values():
                for c in ast.walk(g.node):
                    if not (isinstance(c, ast.Call) and isinstance(c.func, ast.Attribute) and c.func.attr == f.name and dump(c.func.value) == "self"):
                        continue
                    kws_, stars_ = kwargs_of(c)
                    pos = [x for x in pos_names if x != "self"]
                    arg = kws_.get(memo.id) or (c.args[pos.index(memo.id)] if memo.id in pos and pos.index(memo.id) < len(c.args) else None)
                    if arg is None or (isinstance(arg, ast.Constant) and arg.value is None) or fresh(arg):
                        continue
                    if not isinstance(arg, ast.Name):
                        return "persistent" if isinstance(arg, ast.Attribute) else "unknown"
                    asg = [n for n in ast.walk(g.node) if isinstance(n, ast.Assign) and any(isinstance(t_, ast.Name) and t_.id == arg.id for t_ in n.targets)]
                    if not asg or not all(fresh(n.value) for n in asg):
                        return "unknown"
                    loops = [lp for lp in ast.walk(g.node) if isinstance(lp, (ast.For, ast.While)) and any(x is c for x in ast.walk(lp))]
                    if any(not any(x is n for n in asg for x in ast.walk(lp)) for lp in loops):
                        # created once outside a loop that calls reset() on every turn: the second turn gets the first turn's copies
                        return "persistent"
            return verdict
        if stores and all(fresh(s_.value) for s_ in stores):
            return "local"
        if not stores:
            return "persistent"     # a module-level name
    return "unknown"


def run(prog, rep, tier):
    rep.explanation = ("Order automaton over every control-flow path of advance()/evolve()/reset(), keyword/target "
                       "agreement at every operator and logbook call site, and a who-may-write/read rule for start_*. "
                       "Decides the call protocol of RecurrentSelectionBreedingProgram for all replicate/generation "
                       "counts and all operator implementations, because operators are only reached through these sites.")
    rep.not_decided = ["what operators and logbooks do internally"]
    cls = prog.get_class(CLS, MOD)
    ctx = Ctx(prog, rep, cls)
    for r, n in (("R1-order", 3), ("R2-handoff", 10), ("R3-reset", 6), ("R4-readonly", 10)):
        rep.floor(r, n)

    # ---------------------------------------------------------------- advance
    adv = prog.method(cls, "advance")
    rep.saw(adv)
    loop = find_loop(adv)
    if not (isinstance(loop.iter, ast.Call) and isinstance(loop.iter.func, ast.Name) and loop.iter.func.id == "range"
            and len(loop.iter.args) == 1 and isinstance(loop.iter.args[0], ast.Name) and loop.iter.args[0].id == "ngen"):
        it = loop.iter
        if (isinstance(it, ast.Call) and isinstance(it.func, ast.Name) and it.func.id == "range"):
            rep.violate("R1-order", adv.qualname, "generation loop does not run ngen times: range(%s)"
                        % ", ".join(dump(a) for a in it.args), where(adv, loop), "range(ngen)", dump(it))
        elif isinstance(it, ast.Name) and [dump(n_.value) for n_ in ast.walk(adv.node) if isinstance(n_, ast.Assign) and len(n_.targets) == 1
                                            and isinstance(n_.targets[0], ast.Name) and n_.targets[0].id == it.id] == ["range(ngen)"]:
            pass        # the range is built first (e.g. inside a try that rewords the TypeError) and iterated afterwards
        else:
            rep.unrec("R1-order", adv.qualname, "generation loop header not modelled: %s" % dump(it))
    classify = classify_factory(ctx, adv)
    outside = [s for s in body_nodoc(adv.node) if s is not loop]
    for p in enumerate_paths(outside, classify):
        nm = names(p)
        if nm:
            if any(n.startswith("?") for n in nm):
                rep.unrec("R1-order", adv.qualname, "statement outside the generation loop not modelled: %s" % nm)
            else:
                rep.violate("R1-order", adv.qualname, "operator/log/clock event outside the generation loop: %s" % " ".join(nm),
                            where(adv), "all events inside the per-generation loop", " ".join(nm))
    paths = enumerate_paths(loop.body, classify)
    if check_word(rep, "R1-order", adv, paths, ADV_WORD, loopnode=loop):
        rep.ok("R1-order", adv.qualname, "every path (%d) through one generation is: %s" % (len(paths), " ".join(ADV_WORD)),
               sample={"function": adv.qualname, "paths": len(paths), "word": ADV_WORD})
    for p in paths:
        check_handoff(ctx, adv, p)
        break_ = False
    if loop.orelse:
        rep.unrec("R1-order", adv.qualname, "for/else on the generation loop not modelled")

    # ---------------------------------------------------------------- evolve
    evo = prog.method(cls, "evolve")
    rep.saw(evo)
    loop = find_loop(evo)
    it = loop.iter
    if not (isinstance(it, ast.Call) and isinstance(it.func, ast.Name) and it.func.id == "range"
            and len(it.args) == 1 and isinstance(it.args[0], ast.Name) and it.args[0].id == "nrep"):
        if isinstance(it, ast.Call) and isinstance(it.func, ast.Name) and it.func.id == "range":
            rep.violate("R1-order", evo.qualname, "replicate loop does not run nrep times: range(%s)"
                        % ", ".join(dump(a) for a in it.args), where(evo, loop), "range(nrep)", dump(it))
        else:
            rep.unrec("R1-order", evo.qualname, "replicate loop header not modelled: %s" % dump(it))
    classify = classify_factory(ctx, evo)
    body = body_nodoc(evo.node)
    idx = body.index(loop)
    pro = enumerate_paths(body[:idx], classify)
    # prologue: initialize iff not initialised
    pro_ok = True
    for p in pro:
        nm = names(p)
        if any(n.startswith("?") for n in nm):
            rep.unrec("R1-order", evo.qualname, "prologue statement not modelled: %s" % nm)
            pro_ok = False
            continue
        conds = [e for e in p if e.name == "<if>"]
        guarded = None
        for c in conds:
            test, taken = c.data
            pol = True
            t = test
            while isinstance(t, ast.UnaryOp) and isinstance(t.op, ast.Not):
                pol = not pol
                t = t.operand
            if isinstance(t, ast.Call) and isinstance(t.func, ast.Attribute) and t.func.attr == "is_initialized":
                guarded = (pol == taken)   # True: this path has is_initialized() == True
        if nm == ["initialize"]:
            if guarded is not False:
                rep.violate("R1-order", evo.qualname, "initialize() runs on a path where the programme is already initialised"
                            if guarded else "initialize() is not guarded by is_initialized()", where(evo),
                            "initialize only when not is_initialized()", "unguarded")
                pro_ok = False
        elif nm == []:
            if guarded is False:
                rep.violate("R1-order", evo.qualname, "uninitialised programme is evolved without initialize()",
                            where(evo), "initialize when not is_initialized()", "skipped")
                pro_ok = False
        else:
            rep.violate("R1-order", evo.qualname, "unexpected events before the replicate loop: %s" % " ".join(nm),
                        where(evo), "(initialize)?", " ".join(nm))
            pro_ok = False
    if pro_ok and not any(names(p) == ["initialize"] for p in pro):
        rep.violate("R1-order", evo.qualname, "evolve never initialises an uninitialised programme", where(evo),
                    "if not is_initialized(): initialize()", "absent")
        pro_ok = False
    if pro_ok:
        rep.ok("R1-order", evo.qualname + "#prologue", "initialize() iff not is_initialized(), before the replicate loop")
    want = ["rep++", "reset", "evaluate", "log_initialize", "tick", "advance"]
    paths = enumerate_paths(loop.body, classify)
    if check_word(rep, "R1-order", evo, paths, want, optional=("log_initialize",), loopnode=loop):
        rep.ok("R1-order", evo.qualname, "every path (%d) through one replicate is: rep++ reset evaluate [log_initialize] tick advance"
               % len(paths), sample={"function": evo.qualname, "paths": len(paths), "word": want})
    for p in paths:
        check_handoff(ctx, evo, p, need_mcfg_bound=False)
    for p in enumerate_paths(body[idx + 1:], classify):
        if names(p):
            rep.violate("R1-order", evo.qualname, "events after the replicate loop: %s" % " ".join(names(p)), where(evo),
                        "nothing", " ".join(names(p)))
    # advance call forwards ngen/lbook by name
    for n in walk_no_nested(loop):
        if isinstance(n, ast.Call) and isinstance(n.func, ast.Attribute) and n.func.attr == "advance":
            kws, stars = kwargs_of(n)
            ps = [p for p in adv.params() if p != "self"]
            for p_, a in zip(ps, n.args):
                kws.setdefault(p_, a)
            for k in ("ngen", "lbook"):
                v = kws.get(k)
                # the parameter handed on must still be the caller's: a rebinding inside evolve() changes how many generations / which logbook every replicate gets
                rebinds = [s_ for s_ in walk_no_nested(evo.node) if isinstance(s_, (ast.Assign, ast.AugAssign))
                           and any(isinstance(t_, ast.Name) and t_.id == k for t_ in (s_.targets if isinstance(s_, ast.Assign) else [s_.target]))]
                if isinstance(v, ast.Name) and v.id == k and rebinds:
                    rb = rebinds[0]
                    val = rb.value if isinstance(rb, ast.Assign) else None
                    only_none = isinstance(val, ast.IfExp) and isinstance(val.test, ast.Compare) and len(val.test.ops) == 1 and isinstance(val.test.ops[0], (ast.Is, ast.IsNot)) \
                        and dump(val.test.left) == k and isinstance(val.test.comparators[0], ast.Constant) and val.test.comparators[0].value is None \
                        and dump(val.body if isinstance(val.test.ops[0], ast.IsNot) else val.orelse) == k
                    if only_none:
                        rep.ok("R2-handoff", evo.qualname + "#advance." + k, "advance(%s=%s); only None is replaced by a default" % (k, k))
                    elif isinstance(val, ast.BoolOp) and isinstance(val.op, ast.Or) and dump(val.values[0]) == k:
                        rep.violate("R2-handoff", evo.qualname, "%s is rebound to `%s` before it is handed to advance(): every falsy value - in particular %s = 0 - is replaced, so a "
                                    "run of zero generations executes %s generations per replicate" % (k, dump(val), k, dump(val.values[-1])), where(evo, rb),
                                    "%s handed on unchanged (replace None only: `x if %s is None else %s`)" % (k, k, k), dump(rb)[:60])
                    else:
                        rep.unrec("R2-handoff", evo.qualname, "%s is rebound (%s) before it is handed to advance()" % (k, dump(rb)[:50]))
                elif isinstance(v, ast.Name) and v.id == k:
                    rep.ok("R2-handoff", evo.qualname + "#advance." + k, "advance(%s=%s)" % (k, k))
                elif v is None:
                    rep.violate("R2-handoff", evo.qualname, "advance() is not given %s" % k, where(evo, n), k, "absent")
                elif isinstance(v, ast.Name) and v.id in evo.params():
                    rep.violate("R2-handoff", evo.qualname, "advance() receives %s=%s" % (k, v.id), where(evo, n),
                                "%s=%s" % (k, k), dump(v))
                else:
                    rep.unrec("R2-handoff", evo.qualname, "advance(%s=%s) not modelled" % (k, dump(v)))

    # ---------------------------------------------------------------- reset
    rst = prog.method(cls, "reset")
    rep.saw(rst)
    rpaths = enumerate_paths(body_nodoc(rst.node), lambda st: [Event("st", st)])
    for p in rpaths:
        done = {}
        clock0 = False
        for e in p:
            st = e.node
            if e.name != "st":
                continue
            if isinstance(st, ast.Assign) and len(st.targets) == 1:
                fld = field_of(st.targets[0])
                v = st.value
                if fld in STATE:
                    d = prog.dotted(rst.module, v.func) if isinstance(v, ast.Call) else None
                    if d == "copy.deepcopy" and v.args and field_of(v.args[0]) == "start_" + fld:
                        done[fld] = True
                        # a memo dictionary must not outlive this call: a memo hit returns the copy made by an EARLIER reset()
                        memo = v.args[1] if len(v.args) > 1 else next((k.value for k in v.keywords if k.arg == "memo"), None)
                        if memo is not None and not (isinstance(memo, ast.Constant) and memo.value is None):
                            verdict = _memo_lifetime(rst, memo, prog)
                            if verdict == "persistent":
                                rep.violate("R3-reset", rst.qualname, "%s is deep-copied with the memo %s, which persists across calls of reset() (mutable default / attribute / global / created once outside the replicate loop): "
                                            "every later reset() gets memo hits and hands back the working container of the first replicate" % (fld, dump(memo)), where(rst, st),
                                            "copy.deepcopy(self.start_%s) or a memo created inside reset()" % fld, dump(v))
                                done[fld] = False
                            elif verdict == "unknown":
                                rep.unrec("R3-reset", rst.qualname, "lifetime of the deepcopy memo %s not traced" % dump(memo))
                                done[fld] = False
                    elif d in ("copy.copy", "copy.deepcopy") and v.args and field_of(v.args[0]) in START:
                        src = field_of(v.args[0])
                        if d == "copy.copy":
                            rep.violate("R3-reset", rst.qualname, "%s is restored by a shallow copy" % fld, where(rst, st),
                                        "copy.deepcopy(self.start_%s)" % fld, dump(v))
                        else:
                            rep.violate("R3-reset", rst.qualname, "%s is restored from %s" % (fld, src), where(rst, st),
                                        "copy.deepcopy(self.start_%s)" % fld, dump(v))
                        done[fld] = False
                    elif field_of(v) in START:
                        rep.violate("R3-reset", rst.qualname, "%s is restored without a deep copy" % fld, where(rst, st),
                                    "copy.deepcopy(self.start_%s)" % fld, dump(v))
                        done[fld] = False
                    else:
                        rep.unrec("R3-reset", rst.qualname, "restore of %s not modelled: %s" % (fld, dump(v)))
                        done[fld] = False
                elif fld == "t_cur":
                    if is_const(v, 0):
                        clock0 = True
                    else:
                        rep.violate("R3-reset", rst.qualname, "clock reset to %s" % dump(v), where(rst, st), "t_cur = 0", dump(v))
                        clock0 = None
        dynamic = [n for n in ast.walk(rst.node) if isinstance(n, ast.Call) and ((isinstance(n.func, ast.Name) and n.func.id in ("setattr", "exec")) or
                                                                            (isinstance(n.func, ast.Attribute) and dump(n.func.value) == "self" and n.func.attr.startswith("_")))]
        for f in STATE:
            if f not in done and dynamic:
                rep.unrec("R3-reset", rst.qualname, "working container %s is not restored by a visible assignment, and reset() stores attributes dynamically / through a helper (%s)"
                          % (f, dump(dynamic[0])[:40]))
                done[f] = None
        for f in STATE:
            if f not in done:
                rep.violate("R3-reset", rst.qualname, "working container %s is not restored on a path through reset()" % f,
                            where(rst), "self.%s = copy.deepcopy(self.start_%s)" % (f, f), "absent")
            elif done[f]:
                rep.ok("R3-reset", rst.qualname + "#" + f, "%s = deepcopy(start_%s)" % (f, f))
        if clock0 is False:
            rep.violate("R3-reset", rst.qualname, "clock is not reset to zero on a path through reset()", where(rst),
                        "self.t_cur = 0", "absent")
        elif clock0:
            rep.ok("R3-reset", rst.qualname + "#t_cur", "t_cur = 0")

    # ---------------------------------------------------------------- R4 start_* read-only
    init = prog.method(cls, "initialize")
    rep.saw(init)
    # initialize(): unpack into start_* in canonical order
    found = False
    for st in body_nodoc(init.node):
        if isinstance(st, ast.Assign) and isinstance(st.targets[0], ast.Tuple) and isinstance(st.value, ast.Call):
            got = [field_of(x) for x in st.targets[0].elts]
            if all(isinstance(x, ast.Name) for x in st.targets[0].elts):
                # unpacked into locals first, stored afterwards: follow each local to the one attribute it is stored into
                later = {}
                for s2 in body_nodoc(init.node):
                    if isinstance(s2, ast.Assign) and len(s2.targets) == 1 and isinstance(s2.value, ast.Name) and field_of(s2.targets[0]) is not None:
                        later.setdefault(s2.value.id, []).append(field_of(s2.targets[0]))
                got = [later[x.id][0] if len(later.get(x.id, [])) == 1 else None for x in st.targets[0].elts]
            f = st.value.func
            if isinstance(f, ast.Attribute) and f.attr == "initialize" and field_of(f.value) == "initop":
                found = True
                if got == START:
                    rep.ok("R4-readonly", init.qualname, "initop.initialize() -> (%s)" % ", ".join(START))
                elif None in got or any(g not in START for g in got):
                    rep.unrec("R4-readonly", init.qualname, "target %s not modelled" % dump(st.targets[0]))
                else:
                    rep.violate("R2-handoff", init.qualname, "initialize() result unpacked into (%s)" % ", ".join(got),
                                where(init, st), ", ".join(START), ", ".join(got))
    if not found:
        rep.unrec("R4-readonly", init.qualname, "initialize() does not unpack initop.initialize() in the modelled form")

    allowed_writers = {"__init__", "initialize"}
    # a private helper that is called from nowhere but __init__ / initialize of this class writes on their behalf
    own = {f_.name: f_ for f_ in cls.methods.values()}
    for hname, h in own.items():
        if not hname.startswith("_") or hname.startswith("__"):
            continue
        callers = {f_.name for f_ in own.values() for x in walk_no_nested(f_.node) if isinstance(x, ast.Call) and isinstance(x.func, ast.Attribute)
                   and x.func.attr == hname and dump(x.func.value) == "self"}
        elsewhere = any(isinstance(x, ast.Attribute) and x.attr == hname for m_ in prog.modules.values() for x in ast.walk(m_.tree)
                        if not any(x in list(ast.walk(own[c_].node)) for c_ in callers if c_ in own)) if callers else True
        unreferenced = not any(isinstance(x, ast.Attribute) and x.attr == hname for m_ in prog.modules.values() for x in ast.walk(m_.tree))
        if (callers and callers <= {"__init__", "initialize"} and not elsewhere) or (not callers and unreferenced):
            # (unreferenced: the model has put a new helper's body back at its call sites, where its stores are judged; the left-over definition is never called)
            allowed_writers.add(hname)
    for c in prog.mro_classes(cls):
        funcs = list(c.methods.values())
        for p in c.own_props.values():
            funcs += [x for x in (p.getter, p.setter) if x is not None]
        for f in funcs:
            rep.saw(f)
            for n in walk_no_nested(f.node):
                if not isinstance(n, ast.Attribute):
                    continue
                fld = field_of(n)
                if fld not in START:
                    continue
                if isinstance(n.ctx, (ast.Store, ast.Del)):
                    if f.kind == "setter" and f.name == fld:
                        continue
                    if f.name in allowed_writers and f.cls is cls:
                        continue
                    rep.violate("R4-readonly", f.qualname, "%s is assigned outside __init__/initialize/its setter" % fld,
                                where(f, n), "no store", "store")
    # setters store exactly the value they are given
    for s in START:
        p = prog.lookup_prop(cls, s)
        if p is None or p.setter is None or p.getter is None:
            rep.unrec("R4-readonly", cls.qualname, "property %s vanished" % s)
            continue
        par = [a for a in p.setter.params() if a != "self"]
        stores = [n for n in walk_no_nested(p.setter.node) if isinstance(n, ast.Assign)
                  and any(field_of(t) == s for t in n.targets)]
        if len(stores) == 1 and isinstance(stores[0].value, ast.Name) and par and stores[0].value.id == par[0]:
            rep.ok("R4-readonly", p.setter.qualname, "setter stores its argument unchanged")
        else:
            rep.unrec("R4-readonly", p.setter.qualname, "setter body not modelled")
    # reads: parent map over every method
    n_reads = 0
    for c in prog.mro_classes(cls):
        funcs = list(c.methods.values())
        for p in c.own_props.values():
            funcs += [x for x in (p.getter, p.setter) if x is not None]
        for f in funcs:
            parents = {}
            for n in ast.walk(f.node):
                for ch in ast.iter_child_nodes(n):
                    parents[ch] = n
            for n in walk_no_nested(f.node):
                if not (isinstance(n, ast.Attribute) and isinstance(n.ctx, ast.Load) and field_of(n) in START):
                    continue
                fld = field_of(n)
                n_reads += 1
                par = parents.get(n)
                if f.kind == "getter" and f.name == fld and isinstance(par, ast.Return):
                    rep.ok("R4-readonly", f.qualname, "getter returns the stored container")
                    continue
                if isinstance(par, ast.Call) and par.args and par.args[0] is n and \
                        prog.dotted(f.module, par.func) == "copy.deepcopy":
                    rep.ok("R4-readonly", f.qualname + "#" + fld, "read only as deepcopy argument")
                    continue
                if isinstance(par, ast.Compare) and len(par.ops) == 1 and isinstance(par.ops[0], (ast.Is, ast.IsNot)) \
                        and isinstance(par.comparators[0], ast.Constant) and par.comparators[0].value is None:
                    rep.ok("R4-readonly", f.qualname + "#" + fld, "read only in a None test")
                    continue
                if isinstance(par, (ast.Tuple, ast.List)):
                    # listed only to be tested: `all(c is not None for c in (self._start_a, self._start_b, ...))` / any(... is None ...)
                    gp = parents.get(par) if isinstance(parents, dict) else None
                    comp = gp if isinstance(gp, ast.comprehension) else None
                    if comp is None and isinstance(gp, ast.Assign) and len(gp.targets) == 1 and isinstance(gp.targets[0], ast.Name):
                        # the tuple is named first and only iterated over afterwards
                        loads = [x for x in ast.walk(f.node) if isinstance(x, ast.Name) and x.id == gp.targets[0].id and isinstance(x.ctx, ast.Load)]
                        comps = [c_ for c_ in ast.walk(f.node) if isinstance(c_, ast.comprehension) and isinstance(c_.iter, ast.Name) and c_.iter.id == gp.targets[0].id]
                        if len(loads) == 1 and len(comps) == 1:
                            comp = comps[0]
                    owner_ = next((x for x in ast.walk(f.node) if isinstance(x, (ast.GeneratorExp, ast.ListComp)) and any(g_ is comp for g_ in x.generators)), None) if comp is not None else None
                    if owner_ is not None and isinstance(owner_.elt, ast.Compare) and len(owner_.elt.ops) == 1 and isinstance(owner_.elt.ops[0], (ast.Is, ast.IsNot)) \
                            and isinstance(owner_.elt.comparators[0], ast.Constant) and owner_.elt.comparators[0].value is None \
                            and isinstance(owner_.elt.left, ast.Name) and isinstance(comp.target, ast.Name) and owner_.elt.left.id == comp.target.id:
                        rep.ok("R4-readonly", f.qualname + "#" + fld, "read only in a None test (over a tuple of the containers)")
                        continue
                truthy = None
                if isinstance(par, (ast.Tuple, ast.List)):
                    gp_ = parents.get(par) if isinstance(parents, dict) else None
                    if isinstance(gp_, ast.Call) and dump(gp_.func) in ("all", "any") and gp_.args and gp_.args[0] is par:
                        truthy = dump(gp_)[:60]
                elif isinstance(par, ast.BoolOp) or (isinstance(par, ast.UnaryOp) and isinstance(par.op, ast.Not)) or (isinstance(par, ast.Call) and dump(par.func) == "bool"):
                    truthy = dump(par)[:60]
                if truthy and f.name == "is_initialized":
                    # "initialised" means "a start state is stored", not "the stored container is non-empty"
                    rep.violate("R4-readonly", f.qualname, "%s is tested for truth (%s), not for `is not None`: a stored but empty container (e.g. no genomic models) counts as "
                                "uninitialised, evolve() then calls initialize() and the stored initial state is overwritten" % (fld, truthy), where(f, n),
                                "self._%s is not None" % fld, truthy)
                    continue
                if isinstance(par, ast.Call) and prog.dotted(f.module, par.func) == "copy.copy":
                    # a shallow copy shares the contained objects with the initial state
                    rep.violate("R4-readonly", f.qualname, "%s is handed out through a shallow copy" % fld, where(f, n),
                                "copy.deepcopy", "copy.copy")
                    continue
                if isinstance(par, ast.Assign) and par.value is n:
                    tg = [field_of(t) for t in par.targets]
                    rep.violate("R4-readonly", f.qualname, "%s is aliased into %s without a deep copy" % (fld, ",".join(map(str, tg))),
                                where(f, n), "copy.deepcopy(self.%s)" % fld, dump(par))
                    continue
                if isinstance(par, ast.keyword) or (isinstance(par, ast.Call) and n in par.args):
                    rep.violate("R4-readonly", f.qualname, "%s itself (not a deep copy) is passed to a call" % fld, where(f, n),
                                "copy.deepcopy(self.%s)" % fld, dump(par.value) if isinstance(par, ast.keyword) else dump(par))
                    continue
                rep.unrec("R4-readonly", f.qualname, "read of %s in a context not modelled: %s" % (fld, dump(par)[:80]))
    rep.extra["start_reads"] = n_reads
    wire(prog, rep, "C20", 1, 14)
