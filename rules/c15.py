"""
C15  Breeding-value matrices round-trip through scaling without loss

  R1-inverse    unscale(from_numpy(raw)) normalises to raw: location = nanmean(raw, 0), scale = nanstd(raw, 0) with 0 -> 1 substituted BEFORE the
                division, stored = (raw - location)/scale, unscale = scale*stored + location; the scale is a two-pass standard deviation
                "unscaling reproduces the raw value of every taxon to rounding error"  (for "large offsets" too)
  R2-units      RAW / SCALED typing of the overridden taxa operations: the object's values enter as self.unscale(), incoming values as
                values.unscale() (or a raw array), the result is re-standardised by from_numpy
                "taxon selection, deletion, insertion, adjoining ... preserve every retained taxon's raw values"
  R3-restore    every method that edits the stored matrix along the taxa axis re-standardises (or is a permutation)
  R5-setter     the location / scale setters store the array they are handed (a scalar is broadcast): from_numpy standardised with exactly that array
  R4-statistics tmax/tmin = extremum*scale + location, trange = ptp*scale, tmean -> location, tstd -> scale, tvar -> scale^2 when unscale;
                arg-extrema on the stored matrix "every per-trait summary ... requested on the original scale equals that summary of the raw values"
"""
import ast

from sa.ctorflow import wire

from sa import fields as F
from sa.fields import Eval, Unrecognised, is_term, leaves, term_str, NONE, ABSENT
from sa.astutil import dump, where, kwargs_of, walk_no_nested, field_of
from sa.model import body_nodoc
from sa.vn import VN, Poly, VNUnknown, comparable

BV = [("pybrops.popgen.bvmat.DenseBreedingValueMatrix", "DenseBreedingValueMatrix"),
      ("pybrops.popgen.bvmat.DenseEstimatedBreedingValueMatrix", "DenseEstimatedBreedingValueMatrix"),
      ("pybrops.popgen.bvmat.DenseGenomicEstimatedBreedingValueMatrix", "DenseGenomicEstimatedBreedingValueMatrix")]
STAT_REF = {
    "tmax": "self._mat.max(axis=self.taxa_axis) * self._scale + self._location",
    "tmin": "self._mat.min(axis=self.taxa_axis) * self._scale + self._location",
    "trange": "numpy.ptp(self._mat, axis=self.taxa_axis) * self._scale",
    "tmean": "self._location",
    "tstd": "self._scale",
    "tvar": "self._scale ** 2",
}
STAT_SCALED = {
    "tmax": "self._mat.max(axis=self.taxa_axis)", "tmin": "self._mat.min(axis=self.taxa_axis)", "trange": "numpy.ptp(self._mat, axis=self.taxa_axis)",
    "tmean": "self._mat.mean(axis=self.taxa_axis)", "tstd": "self._mat.std(axis=self.taxa_axis)", "tvar": "self._mat.var(axis=self.taxa_axis)",
    "targmax": "self._mat.argmax(axis=self.taxa_axis)", "targmin": "self._mat.argmin(axis=self.taxa_axis)",
}


def check_inverse(prog, rep, K):
    fn = prog.lookup_method(K, "from_numpy")
    un = prog.lookup_method(K, "unscale")
    if fn is None or un is None:
        rep.unrec("R1-inverse", K.qualname, "from_numpy / unscale vanished")
        return
    if fn.cls is not K and K.name != "DenseBreedingValueMatrix":
        return
    rep.saw(fn)
    rep.saw(un)
    construct = fn.qualname
    raw = fn.params()[1]
    vn = VN(prog, fn, strip_broadcast=True)
    subst_before_div = False
    kw = None
    try:
        for st in body_nodoc(fn.node):
            if isinstance(st, ast.Expr):
                continue
            if isinstance(st, (ast.Assign, ast.Return)) and isinstance(st.value, ast.Call) and dump(st.value.func) == "cls":
                kws, _ = kwargs_of(st.value)
                kw = {k: vn.expr(v) for k, v in kws.items() if k in ("mat", "location", "scale")}
                break
            if isinstance(st, ast.Return):
                break
            vn.stmt(st)
    except VNUnknown as e:
        rep.unrec("R1-inverse", construct, "from_numpy not straight-line: %s" % e)
        return
    if kw is None or set(kw) != {"mat", "location", "scale"}:
        rep.unrec("R1-inverse", construct, "cls(mat=, location=, scale=) not found")
        return
    good = True
    ref_loc = VN(prog, fn).expr(ast.parse("numpy.nanmean(%s, axis=0)" % raw, mode="eval").body)
    if kw["location"] != ref_loc:
        if comparable(kw["location"], ref_loc):
            rep.violate("R1-inverse", construct, "location is %s, not the per-trait mean of the raw values ignoring NaN" % kw["location"].show()[:80], where(fn),
                        "numpy.nanmean(%s, axis=0)" % raw, kw["location"].show()[:80])
        else:
            rep.unrec("R1-inverse", construct, "location computed with other operators: %s" % kw["location"].show()[:80])
        good = False
    # scale: setitem(nanstd(raw, 0), cmp(Eq, nanstd.., 0), 1)
    ref_std = VN(prog, fn).expr(ast.parse("numpy.nanstd(%s, axis=0)" % raw, mode="eval").body)
    sc = kw["scale"]
    sk = sc.key()
    base = guard_ok = None
    if len(sc.terms) == 1:
        (m, c), = sc.terms.items()
        if c == 1 and len(m) == 1 and m[0][1] == 1 and isinstance(m[0][0], tuple) and m[0][0][0] == "setitem":
            a = m[0][0]
            base = Poly({mm: __import__("fractions").Fraction(*cc) for mm, cc in a[1]})
            idx, val = a[2], a[3]
            guard_ok = (isinstance(idx, tuple) and idx and idx[0][0] and "cmp" in repr(idx) and "Eq" in repr(idx)) and val == Poly.const(1).key()
    if base is None:
        if sc == ref_std:
            rep.violate("R1-inverse", construct, "a constant trait (standard deviation 0) is not given unit scale before the division: the stored values become NaN/inf",
                        where(fn), "scale[scale == 0.0] = 1.0", "absent")
        else:
            rep.unrec("R1-inverse", construct, "scale not (two-pass std with 0 -> 1): %s" % sc.show()[:100])
        good = False
    else:
        if base != ref_std:
            txt = base.show()
            one_pass = "sqrt" in txt and "nanmean" in txt
            if one_pass:
                rep.violate("R1-inverse", construct, "scale is the one-pass variance formula sqrt(mean(x*x) - mean(x)^2): catastrophic cancellation for traits whose mean is large "
                            "relative to their spread (wrong / NaN scale at large offsets)", where(fn), "numpy.nanstd(%s, axis=0)" % raw, txt[:100])
            elif comparable(base, ref_std):
                rep.violate("R1-inverse", construct, "scale is %s, not the per-trait standard deviation of the raw values" % txt[:80], where(fn), "numpy.nanstd(%s, axis=0)" % raw, txt[:80])
            else:
                rep.unrec("R1-inverse", construct, "scale computed with other operators: %s" % txt[:80])
            good = False
        if not guard_ok:
            rep.violate("R1-inverse", construct, "zero standard deviations are not replaced by exactly 1", where(fn), "scale[scale == 0.0] = 1.0", sc.show()[:80])
            good = False
    # stored = (raw - location) / scale   (using the substituted scale)
    ref_mat = (Poly.atom(("var", raw)) - kw["location"]) * kw["scale"].pow(-1)
    if kw["mat"] != ref_mat:
        if comparable(kw["mat"], ref_mat):
            rep.violate("R1-inverse", construct, "stored values normalise to %s, not (raw - location)/scale" % kw["mat"].show()[:120], where(fn), "(raw - location) / scale",
                        kw["mat"].show()[:120])
        else:
            rep.unrec("R1-inverse", construct, "standardisation written with other operators")
        good = False
    # compose with unscale
    try:
        env = {"self.mat": kw["mat"], "self.scale": kw["scale"], "self.location": kw["location"]}
        uv = VN(prog, un, env=env, strip_broadcast=True).run(body_nodoc(un.node))
    except VNUnknown as e:
        rep.unrec("R1-inverse", un.qualname, "unscale not straight-line: %s" % e)
        return
    if uv == Poly.atom(("var", raw)):
        if good:
            rep.ok("R1-inverse", construct, "unscale(from_numpy(raw)) normalises to raw; location = nanmean, scale = nanstd with 0 -> 1 before the division",
                   sample={"function": construct, "stored": kw["mat"].show()[:160]})
    else:
        rep.violate("R1-inverse", un.qualname, "unscale(from_numpy(raw)) normalises to %s, not to raw" % uv.show()[:120], where(un), raw, uv.show()[:120])


def check_units(prog, rep, K):
    """R2 on the overridden non-mutating taxa ops; R3 on everything else that edits mat along taxa"""
    for op, prim in (("adjoin", "append"), ("delete", "delete"), ("insert", "insert"), ("select", "take"), ("concat", "concatenate")):
        m = "%s_taxa" % op
        f = prog.lookup_method(K, m)
        if f is None:
            continue
        construct = "%s.%s" % (K.qualname, m)
        try:
            ev = Eval(prog, K)
            fr = ev.run(f)
        except Unrecognised as e:
            rep.unrec("R2-units", construct, "evaluator: %s" % e)
            continue
        rep.saw(f)
        rl = [l for l in leaves(fr.ret)] if fr.ret is not ABSENT else []
        news = [l for l in rl if is_term(l, "new")]
        if not news or len(news) != len(rl):
            rep.unrec("R2-units", construct, "result is not a constructed object")
            continue
        o = ev.objects[news[0][1]]
        if o.how != "factory:from_numpy":
            # constructor path: keeps no location/scale of its own -> the result is not a standardised matrix of the raw values
            if "location" not in o.kw or "scale" not in o.kw:
                rep.violate("R3-restore", construct, "result is built by the plain constructor from edited values without location/scale (inherited operation): "
                            "the scaling of the raw values is lost", where(f), "re-standardise through from_numpy", o.how)
            else:
                rep.unrec("R2-units", construct, "constructor path with explicit location/scale not modelled")
            continue
        mat = o.kw.get("mat", ABSENT)
        good = True
        for l in leaves(mat):
            if not is_term(l, "np"):
                rep.unrec("R2-units", construct, "mat: %s not modelled" % term_str(l)[:80])
                good = False
                continue
            src = l[2]
            if src != ("selfcall", "unscale", ()):
                if src == ("self", "mat"):
                    rep.violate("R2-units", construct, "the object's STORED (standardised) values are edited and then re-standardised as if they were raw", where(f),
                                "self.unscale()", "self.mat")
                else:
                    rep.unrec("R2-units", construct, "own values enter as %s" % term_str(src)[:60])
                good = False
            if l[4] is not None:
                for v in leaves(l[4]):
                    if v == ("param", "values") or (is_term(v, "objcall") and v[2] == "unscale" and v[1] == ("param", "values")):
                        continue
                    if v == ("obj", "values", "mat"):
                        rep.violate("R2-units", construct, "incoming matrix object contributes its stored (standardised) values where raw values are expected", where(f),
                                    "values.unscale()", "values.mat")
                    else:
                        txt = term_str(v)
                        s = repr(v)
                        if "'self', 'scale'" in s or "'self', 'location'" in s:
                            rep.violate("R2-units", construct, "incoming values are unscaled with the RECEIVER's scale/location instead of their own", where(f),
                                        "values.unscale()", txt[:80])
                        else:
                            rep.unrec("R2-units", construct, "incoming values %s not modelled" % txt[:80])
                    good = False
        # every retained taxon keeps ITS raw values: values and taxon labels are edited with one index operand
        idx_m = {l[3] for l in leaves(mat) if is_term(l, "np") and l[3] is not None}
        idx_t = {l[3] for fld_ in ("taxa", "taxa_grp") for l in leaves(o.kw.get(fld_, ABSENT)) if is_term(l, "np") and l[3] is not None}
        if idx_m and idx_t and idx_m != idx_t:
            rep.violate("R2-units", construct, "values are edited with %s but the taxon labels with %s: a retained label is paired with another taxon's values"
                        % (", ".join(sorted(term_str(i)[:50] for i in idx_m)), ", ".join(sorted(term_str(i)[:50] for i in idx_t))), where(f),
                        "one index operand for values and labels", ", ".join(sorted(term_str(i)[:50] for i in idx_m)))
            good = False
        tr = o.kw.get("trait", ABSENT)
        if tr not in (("self", "trait"), ("obj", "mats[0]", "trait")) and op != "concat":
            rep.violate("R2-units", construct, "trait names are not carried over (%s)" % term_str(tr)[:40], where(f), "trait=self.trait", term_str(tr)[:40])
            good = False
        if good:
            rep.ok("R2-units", construct, "raw in (self.unscale(), values.unscale()/raw array) -> numpy.%s -> from_numpy re-standardises" % prim)
    for m in ("append_taxa", "remove_taxa", "incorp_taxa"):
        f = prog.lookup_method(K, m)
        if f is None:
            continue
        construct = "%s.%s" % (K.qualname, m)
        try:
            ev = Eval(prog, K)
            fr = ev.run(f)
        except Unrecognised as e:
            rep.unrec("R3-restore", construct, "evaluator: %s" % e)
            continue
        rep.saw(f)
        st = {k[5:]: v for k, v in fr.env.items() if k.startswith("self.")}
        edits = any(is_term(l, "np") for l in leaves(st.get("mat", ("self", "mat"))))
        restd = "location" in st and "scale" in st
        if edits and not restd:
            rep.violate("R3-restore", construct, "the stored standardised values are edited in place but location/scale are not recomputed (inherited mutator): "
                        "unscale() of the result no longer returns the raw values", where(f), "re-standardise (unscale, edit, from_numpy)", "location/scale stale")
        else:
            rep.ok("R3-restore", construct, "re-standardises" if restd else "does not edit the stored values")


def check_statistics(prog, rep, K):
    for name, ref in STAT_REF.items():
        f = prog.lookup_method(K, name)
        if f is None:
            rep.unrec("R4-statistics", K.qualname, "%s vanished" % name)
            continue
        rep.saw(f)
        construct = "%s.%s" % (K.qualname, name)
        try:
            got = VN(prog, f, flags={"unscale": True}).run(body_nodoc(f.node))
            r = VN(prog, f).expr(ast.parse(ref, mode="eval").body)
            gots = VN(prog, f, flags={"unscale": False}).run(body_nodoc(f.node))
            rs = VN(prog, f).expr(ast.parse(STAT_SCALED[name], mode="eval").body)
        except VNUnknown as e:
            rep.unrec("R4-statistics", construct, "not straight-line: %s" % e)
            continue
        if got == r and gots == rs:
            rep.ok("R4-statistics", construct, "%s(unscale=True) == %s" % (name, ref))
        elif got != r and comparable(got, r):
            rep.violate("R4-statistics", construct, "%s on the original scale normalises to %s; the back-transformed statistic is %s" % (name, got.show()[:100], r.show()[:100]),
                        where(f), ref, got.show()[:100])
        elif gots != rs and comparable(gots, rs):
            rep.violate("R4-statistics", construct, "%s on the stored scale normalises to %s, not %s" % (name, gots.show()[:100], rs.show()[:100]), where(f), STAT_SCALED[name],
                        gots.show()[:100])
        else:
            rep.unrec("R4-statistics", construct, "statistic written with other operators")
    for name in ("targmax", "targmin"):
        f = prog.lookup_method(K, name)
        if f is None:
            continue
        rep.saw(f)
        try:
            got = VN(prog, f).run(body_nodoc(f.node))
            rs = VN(prog, f).expr(ast.parse(STAT_SCALED[name], mode="eval").body)
            if got == rs:
                rep.ok("R4-statistics", "%s.%s" % (K.qualname, name), "%s on the stored matrix (order-preserving scaling)" % name)
            elif comparable(got, rs):
                rep.violate("R4-statistics", "%s.%s" % (K.qualname, name), "%s normalises to %s" % (name, got.show()[:100]), where(f), STAT_SCALED[name], got.show()[:100])
            else:
                rep.unrec("R4-statistics", "%s.%s" % (K.qualname, name), "other operators")
        except VNUnknown as e:
            rep.unrec("R4-statistics", "%s.%s" % (K.qualname, name), str(e))


SCALED_CLASSES = [("pybrops.core.mat.DenseScaledMatrix", "DenseScaledMatrix"), ("pybrops.core.mat.DenseScaledSquareTaxaTraitMatrix", "DenseScaledSquareTaxaTraitMatrix")]


def check_guard_order(prog, rep):
    """R1-guard-order: wherever a scale vector gets its zeros substituted (X[X == 0] = c), every division by X / reciprocal of X comes AFTER the substitution"""
    n = 0
    classes = [prog.get_class(c, m) for m, c in BV + SCALED_CLASSES if m in prog.modules]
    seen = set()
    for K in classes:
        for f in K.methods.values():
            if id(f) in seen:
                continue
            seen.add(id(f))
            guards = []
            for st in walk_no_nested(f.node):
                if isinstance(st, ast.Assign) and isinstance(st.targets[0], ast.Subscript) and isinstance(st.targets[0].value, ast.Name) and isinstance(st.targets[0].slice, ast.Compare):
                    c = st.targets[0].slice
                    if isinstance(c.ops[0], ast.Eq) and dump(c.left) == st.targets[0].value.id and isinstance(c.comparators[0], ast.Constant) and c.comparators[0].value == 0:
                        guards.append((st.targets[0].value.id, st))
            for X, gst in guards:
                n += 1
                rep.saw(f)
                construct = "%s[%s]" % (f.qualname, X)
                early = []
                for st in walk_no_nested(f.node):
                    if getattr(st, "lineno", 10 ** 9) >= gst.lineno or not isinstance(st, (ast.Assign, ast.AugAssign)):
                        continue
                    for b in ast.walk(st.value):
                        if isinstance(b, ast.BinOp) and isinstance(b.op, ast.Div) and any(isinstance(x, ast.Name) and x.id == X for x in ast.walk(b.right)):
                            early.append(st)
                    if isinstance(st, ast.AugAssign) and isinstance(st.op, ast.Div) and any(isinstance(x, ast.Name) and x.id == X for x in ast.walk(st.value)):
                        early.append(st)
                if early:
                    rep.violate("R1-guard-order", construct, "`%s` divides by %s BEFORE its zeros are replaced (%s): a constant trait gives 1/0 = inf, and 0 * inf = NaN in every "
                                "entry of that trait" % (dump(early[0])[:50], X, dump(gst)[:40]), where(f, early[0]), "substitute zeros first", dump(early[0])[:50])
                else:
                    rep.ok("R1-guard-order", construct, "zeros of %s are substituted before anything divides by it" % X)
    rep.floor("R1-guard-order", 2)


def check_stat_purity(prog, rep):
    """R5-purity: a summary statistic never updates in place a value that may BE one of the object's own arrays (location / scale / matrix)"""
    for mod, cname in BV:
        K = prog.get_class(cname, mod)
        stats = [m for m in ("tmax", "tmin", "trange", "tmean", "tstd", "tvar", "targmax", "targmin") if prog.lookup_method(K, m) is not None]
        # which statistics may hand out a field by reference
        leaks = {}
        for m in stats:
            f = prog.lookup_method(K, m)
            defs = {}
            for st in walk_no_nested(f.node):
                if isinstance(st, ast.Assign) and len(st.targets) == 1 and isinstance(st.targets[0], ast.Name):
                    defs.setdefault(st.targets[0].id, []).append(st.value)

            def fields(e, depth=0):
                out = set()
                if depth > 4:
                    return out
                if isinstance(e, ast.IfExp):
                    return fields(e.body, depth + 1) | fields(e.orelse, depth + 1)
                fl = field_of(e) if isinstance(e, ast.Attribute) else None
                if fl is not None:
                    out.add(fl)
                elif isinstance(e, ast.Name):
                    for d in defs.get(e.id, []):
                        out |= fields(d, depth + 1)
                return out
            for st in walk_no_nested(f.node):
                if isinstance(st, ast.Return) and st.value is not None:
                    fs = fields(st.value)
                    if fs:
                        leaks.setdefault(m, set()).update(fs)
        for m in stats:
            f = prog.lookup_method(K, m)
            if f.cls is not K and K.name != "DenseBreedingValueMatrix":
                continue
            rep.saw(f)
            construct = "%s.%s" % (K.qualname, m)
            defs = {}
            for st in walk_no_nested(f.node):
                if isinstance(st, ast.Assign) and len(st.targets) == 1 and isinstance(st.targets[0], ast.Name):
                    defs.setdefault(st.targets[0].id, []).append(st.value)

            def may_alias(name, depth=0):
                out = set()
                for d in defs.get(name, []):
                    parts = [d.body, d.orelse] if isinstance(d, ast.IfExp) else [d]
                    for e in parts:
                        fl = field_of(e) if isinstance(e, ast.Attribute) else None
                        if fl is not None:
                            out.add("self.%s" % fl)
                        elif isinstance(e, ast.Call) and isinstance(e.func, ast.Attribute) and dump(e.func.value) == "self" and e.func.attr in leaks:
                            out |= {"self.%s (returned by reference from %s())" % (x, e.func.attr) for x in leaks[e.func.attr]}
                        elif isinstance(e, ast.Name) and depth < 4:
                            out |= may_alias(e.id, depth + 1)
                return out
            bad = False
            for st in walk_no_nested(f.node):
                tgt = None
                if isinstance(st, ast.AugAssign):
                    tgt = st.target
                elif isinstance(st, ast.Assign) and isinstance(st.targets[0], ast.Subscript):
                    tgt = st.targets[0]
                base = tgt
                while isinstance(base, ast.Subscript):
                    base = base.value
                if tgt is not None and isinstance(base, ast.Name):
                    al = may_alias(base.id)
                    if al:
                        rep.violate("R5-purity", construct, "`%s` updates in place a value that can be %s: calling the statistic changes the object's scaling parameters, and every later "
                                    "unscale / statistic / taxa operation is wrong" % (dump(st)[:40], sorted(al)[0]), where(f, st), "a fresh array (e.g. out = out * out)", dump(st)[:40])
                        bad = True
            if not bad:
                rep.ok("R5-purity", construct, "no in-place update of a value that may alias location / scale / matrix")
    rep.floor("R5-purity", 6)


SCALED_BASE = ("pybrops.core.mat.DenseScaledMatrix", "DenseScaledMatrix")


def check_setters(prog, rep, K):
    """R5-setter: the constructor hands from_numpy's location / scale to the property setters; the stored matrix was centred and divided with exactly those
    arrays, so `unscale` is the inverse only if the setter stores the array it is given.  On every path of the setter the parameter may be rebound only by
    broadcasting a scalar (`numpy.repeat(value, n)` / `numpy.full(n, value)`, in a branch that is not the ndarray branch), and what is stored is the parameter
    (or a plain copy of it)."""
    for name in ("location", "scale"):
        P = prog.lookup_prop(K, name)
        f = P.setter if P is not None else None
        construct = "%s.%s.setter" % (K.qualname, name)
        if f is None:
            rep.unrec("R5-setter", construct, "setter vanished")
            continue
        rep.saw(f)
        ps = f.params()
        if len(ps) != 2:
            rep.unrec("R5-setter", construct, "setter signature not (self, value)")
            continue
        v = ps[1]
        good = True
        stores = []

        def walk(stmts, in_array_branch):
            nonlocal good
            for st in stmts:
                if isinstance(st, ast.If):
                    t = "".join(dump(st.test).split())
                    arr = "ndarray" in t and "isinstance(%s" % v in t and not t.startswith("not")
                    walk(st.body, in_array_branch or arr)
                    walk(st.orelse, in_array_branch)
                    continue
                if isinstance(st, (ast.For, ast.While, ast.With, ast.Try)):
                    if any(isinstance(n, ast.Name) and n.id == v and isinstance(n.ctx, ast.Store) for n in ast.walk(st)) or "self._%s" % name in dump(st):
                        rep.unrec("R5-setter", construct, "value handled inside a %s statement" % type(st).__name__)
                        good = False
                    continue
                tg = st.targets if isinstance(st, ast.Assign) else ([st.target] if isinstance(st, (ast.AugAssign, ast.AnnAssign)) else [])
                for t_ in tg:
                    base = t_
                    while isinstance(base, (ast.Subscript, ast.Attribute)) and not (isinstance(base, ast.Attribute) and dump(base.value) == "self"):
                        base = base.value
                    if isinstance(base, ast.Name) and base.id == v:
                        val = st.value
                        bcast = (isinstance(t_, ast.Name) and isinstance(st, ast.Assign) and isinstance(val, ast.Call)
                                 and ((prog.dotted(f.module, val.func) == "numpy.repeat" and val.args and dump(val.args[0]) == v)
                                      or (prog.dotted(f.module, val.func) == "numpy.full" and len(val.args) >= 2 and dump(val.args[1]) == v)))
                        conv = (isinstance(t_, ast.Name) and isinstance(st, ast.Assign) and isinstance(val, ast.Call) and len(val.args) == 1 and dump(val.args[0]) == v
                                and prog.dotted(f.module, val.func) in ("numpy.asarray", "numpy.array", "numpy.ascontiguousarray", "numpy.copy"))
                        if bcast and not in_array_branch:
                            continue
                        if conv:
                            continue
                        if in_array_branch or not isinstance(t_, ast.Name) or isinstance(st, ast.AugAssign):
                            rep.violate("R5-setter", construct, "the %s array handed to the setter is altered before it is stored (%s): the stored matrix was standardised with the "
                                        "array as given, so unscale() no longer reproduces the raw values" % (name, dump(st)[:70]), where(f, st), "self._%s = %s" % (name, v), dump(st)[:70])
                        else:
                            rep.unrec("R5-setter", construct, "parameter rebound by %s" % dump(st)[:60])
                        good = False
                    elif isinstance(t_, ast.Attribute) and dump(t_) == "self._%s" % name:
                        stores.append(st)
        walk(body_nodoc(f.node), False)
        if len(stores) != 1:
            rep.unrec("R5-setter", construct, "expected one store to self._%s, found %d" % (name, len(stores)))
            continue
        sv = stores[0].value
        plain = dump(sv) == v or (isinstance(sv, ast.Call) and ((isinstance(sv.func, ast.Attribute) and sv.func.attr == "copy" and dump(sv.func.value) == v and not sv.args)
                                                                or (len(sv.args) == 1 and dump(sv.args[0]) == v and prog.dotted(f.module, sv.func) in
                                                                    ("numpy.asarray", "numpy.array", "numpy.copy", "copy.copy", "copy.deepcopy", "numpy.ascontiguousarray"))))
        if not plain:
            if any(isinstance(n, ast.Name) and n.id == v for n in ast.walk(sv)):
                rep.violate("R5-setter", construct, "the setter stores %s, not the %s it is given: the stored matrix was standardised with the array as given" % (dump(sv)[:60], name),
                            where(f, stores[0]), "self._%s = %s" % (name, v), dump(sv)[:60])
            else:
                rep.unrec("R5-setter", construct, "stored value %s not traced to the parameter" % dump(sv)[:60])
            continue
        if good:
            rep.ok("R5-setter", construct, "stores the array it is given (a scalar is broadcast first)")


def check_owned(prog, rep, K):
    """R6-owned: a field some method of the class overwrites in place (`self.scale[:] = 1.0` in the in-place unscale) belongs to one object: the shallow copy gives the
    copy its own array.  Otherwise an in-place unscale of a copy resets the location / scale of its source, whose stored matrix is still standardised - and
    unscaling the source no longer reproduces the raw values."""
    if prog.mro(K) is None:
        return
    written = {}
    for name in prog.all_methods(K):
        f = prog.lookup_method(K, name)
        if f is None:
            continue
        for st in walk_no_nested(f.node):
            tg = st.targets if isinstance(st, ast.Assign) else ([st.target] if isinstance(st, ast.AugAssign) else [])
            for t in tg:
                if isinstance(t, ast.Subscript) and isinstance(t.value, ast.Attribute) and dump(t.value.value) == "self" and t.value.attr.lstrip("_") in ("location", "scale"):
                    written.setdefault(t.value.attr.lstrip("_"), f)
    if not written:
        return
    f = prog.lookup_method(K, "__copy__")
    if f is None:
        return
    rep.saw(f)
    ctors = [c for c in walk_no_nested(f.node) if isinstance(c, ast.Call) and dump(c.func) in ("self.__class__", "type(self)", K.name)]
    if len(ctors) != 1:
        rep.unrec("R6-owned", "%s.__copy__" % K.qualname, "construction of the copy not found")
        return
    kws, _ = kwargs_of(ctors[0])
    params = prog.init_params(K)
    bound = dict(zip(params, ctors[0].args))
    bound.update(kws)
    for fld, wf in sorted(written.items()):
        construct = "%s.__copy__[%s]" % (K.qualname, fld)
        v = bound.get(fld)
        if v is None:
            rep.unrec("R6-owned", construct, "%s not handed to the copy's constructor" % fld)
            continue
        fresh = isinstance(v, ast.Call) and ((prog.dotted(f.module, v.func) or dump(v.func)) in ("copy.copy", "copy.deepcopy", "numpy.array", "numpy.copy")
                                             or (isinstance(v.func, ast.Attribute) and v.func.attr == "copy"))
        if fresh:
            rep.ok("R6-owned", construct, "the copy gets its own %s array (%s overwrites it in place)" % (fld, wf.name))
        elif field_of(v) in (fld, "_" + fld):
            rep.violate("R6-owned", construct, "the shallow copy shares its %s array with its source, and %s overwrites that array in place: an in-place unscale of the copy resets the "
                        "source's %s while the source's matrix is still standardised" % (fld, wf.qualname.split(":")[-1], fld), where(f, ctors[0]), "copy.copy(self.%s)" % fld, dump(v))
        else:
            rep.unrec("R6-owned", construct, "%s of the copy is %s" % (fld, dump(v)[:40]))


def run(prog, rep, tier):
    rep.explanation = ("Algebraic normal-form proof that unscale o from_numpy is the identity (with the 0 -> 1 scale substitution ahead of the division and a two-pass "
                       "standard deviation), RAW/SCALED unit typing of the taxa operations through the field-flow evaluator, invariant restoration of mutators, "
                       "and spec congruence of the back-transformed statistics.")
    rep.not_decided = ["NaN propagation inside numpy reductions", "the constant-trait corner of tstd/tvar(unscale=True) (returns the substituted 1; raw std is 0)"]
    for r, n in (("R1-inverse", 1), ("R2-units", 10), ("R3-restore", 9), ("R4-statistics", 20), ("R5-setter", 8)):
        rep.floor(r, n)
    for mod, cname in BV:
        K = prog.get_class(cname, mod)
        check_inverse(prog, rep, K)
        check_units(prog, rep, K)
        check_statistics(prog, rep, K)
        check_setters(prog, rep, K)
    check_setters(prog, rep, prog.get_class(SCALED_BASE[1], SCALED_BASE[0]))
    for mod, cname in list(BV) + [SCALED_BASE]:
        check_owned(prog, rep, prog.get_class(cname, mod))
    rep.floor("R6-owned", 2)
    check_guard_order(prog, rep)
    check_stat_purity(prog, rep)
    wire(prog, rep, "C15", 3, 50)
