"""
C06  Optimisers return feasible solutions with truthful objective values  (structural part)

  R1-assembly  every algorithm builds its Solution from the same-named attributes of the problem and from the result slots
               X/F/G/H (GA family) or the incumbent tuple (hill-climbers, sorting), never cross-wired
               "objective and constraint values reported with each solution equal a fresh evaluation of the problem at that decision"
  R2-truthful  hill-climbers / sorting: the values stored with the incumbent are prob.evalfn of the incumbent in its current state
  R3-swaps     exchange discipline: two-element swaps only, undone on every scan path, lexicographic (violation, score) acceptance,
               stop only after a complete scan without improvement "stop only at decisions that no single exchange improves"
  R4-subsets   every place that CREATES a subset decision draws without replacement / takes distinct positions; complement built with
               not-in1d; crossover pools are A\\B and B\\A written back through the same masks
               "subsets ... consist of distinct members of the candidate set"
  R5-problem   arrays an algorithm writes in place are fresh copies, never views of the problem's arrays "the problem object is not modified"
  R6-sorting   score each member alone, argsort ascending on the objective, take positions [0:ndecn], re-evaluate the chosen subset
  R7-integer   integer operators round, then cast back to the input dtype
"""
import ast

from sa.ctorflow import wire


from sa.astutil import canon_text, oriented, dump, where, kwargs_of, walk_no_nested, is_const, field_of
from sa.model import AnalysisError, body_nodoc, ClassInfo
from sa.order import enumerate_paths, Event, names
from rules.c17 import _swap, _defs

PROB_ATTRS = ["ndecn", "decn_space", "decn_space_lower", "decn_space_upper", "nobj", "obj_wt", "nineqcv", "ineqcv_wt", "neqcv", "eqcv_wt"]
SLOT = {"soln_decn": ("X", "soln"), "soln_obj": ("F", "obj"), "soln_ineqcv": ("G", "ineqcv"), "soln_eqcv": ("H", "eqcv")}
HILL = [("pybrops.opt.algo.SteepestDescentSubsetHillClimber", "SteepestDescentSubsetHillClimber"),
        ("pybrops.opt.algo.SortingSteepestDescentSubsetHillClimber", "SortingSteepestDescentSubsetHillClimber")]
FRESH_CALLS = {"choice", "copy", "permutation", "array", "stack", "arange", "astype", "take", "delete", "insert", "append", "concatenate", "repeat"}


def algo_classes(prog):
    out = []
    for c in prog.all_classes():
        if c.module.name.startswith("pybrops.opt.algo.") and "minimize" in c.methods:
            f = c.methods["minimize"]
            body = body_nodoc(f.node)
            if len(body) == 1 and isinstance(body[0], ast.Raise):
                continue
            out.append((c, f))
    return out


def _sources(e, defs, depth=0, seen=None):
    """set of leaf expressions (as text) a value is built from, following local single/multi assignments"""
    seen = seen or set()
    out = set()
    if depth > 6:
        return {dump(e)}
    if isinstance(e, ast.Name):
        if e.id in seen:
            return set()
        if e.id in defs and e.id not in seen:
            for a in defs[e.id]:
                v = a.value
                t = a.targets[0]
                if isinstance(t, ast.Tuple) and isinstance(v, ast.Tuple) and len(t.elts) == len(v.elts):
                    for te, ve in zip(t.elts, v.elts):
                        if isinstance(te, ast.Name) and te.id == e.id:
                            out |= _sources(ve, defs, depth + 1, seen | {e.id})
                elif isinstance(t, ast.Tuple):
                    idx = [i for i, te in enumerate(t.elts) if isinstance(te, ast.Name) and te.id == e.id]
                    out.add("%s#%d" % (dump(v)[:60], idx[0] if idx else -1))
                else:
                    out |= _sources(v, defs, depth + 1, seen | {e.id})
            return out
        return {e.id}
    if isinstance(e, ast.Attribute):
        return {dump(e)}
    if isinstance(e, ast.Call):
        d = dump(e.func)
        if d in ("numpy.stack", "numpy.array", "numpy.copy", "numpy.asarray") and e.args:
            a0 = e.args[0]
            if isinstance(a0, (ast.List, ast.Tuple)):
                for x in a0.elts:
                    out |= _sources(x, defs, depth + 1, seen)
                return out
            return _sources(a0, defs, depth + 1, seen)
        return {dump(e)[:60]}
    if isinstance(e, ast.IfExp):
        return _sources(e.body, defs, depth + 1, seen) | _sources(e.orelse, defs, depth + 1, seen)
    if isinstance(e, ast.Subscript) and isinstance(e.value, ast.Name) and e.value.id in defs:
        return _sources(e.value, defs, depth + 1, seen)
    return {dump(e)[:60]}


def _alldefs(f):
    d = {}
    for n in walk_no_nested(f.node):
        if isinstance(n, ast.Assign) and len(n.targets) == 1:
            t = n.targets[0]
            if isinstance(t, ast.Name):
                d.setdefault(t.id, []).append(n)
            elif isinstance(t, ast.Tuple):
                for e in t.elts:
                    if isinstance(e, ast.Name):
                        d.setdefault(e.id, []).append(n)
    return d


def check_assembly(prog, rep):
    for c, f in algo_classes(prog):
        rep.saw(f)
        construct = f.qualname
        sol = [n for n in walk_no_nested(f.node) if isinstance(n, ast.Call) and isinstance(n.func, ast.Name) and n.func.id.endswith("Solution")
               and isinstance(prog.resolve_name(f.module, n.func.id), ClassInfo)]
        if len(sol) != 1:
            rep.unrec("R1-assembly", construct, "expected exactly one Solution construction, found %d" % len(sol))
            continue
        kws, _ = kwargs_of(sol[0])
        prob = f.params()[1] if len(f.params()) > 1 else "prob"
        defs = _alldefs(f)
        good = True
        for k in PROB_ATTRS:
            v = kws.get(k)
            if isinstance(v, ast.Name):
                # a local bound once to the problem's attribute (ndecn = prob.ndecn) stands for it
                ds_ = [n_.value for n_ in walk_no_nested(f.node) if isinstance(n_, ast.Assign) and len(n_.targets) == 1 and isinstance(n_.targets[0], ast.Name)
                       and n_.targets[0].id == v.id]
                if len(ds_) == 1 and isinstance(ds_[0], ast.Attribute):
                    v = ds_[0]
            if v is None:
                rep.violate("R1-assembly", construct, "solution is built without %s" % k, where(f, sol[0]), "%s=%s.%s" % (k, prob, k), "absent")
                good = False
            elif dump(v) != "%s.%s" % (prob, k):
                if isinstance(v, ast.Attribute) and dump(v.value) == prob:
                    rep.violate("R1-assembly", construct, "solution field %s is taken from %s.%s" % (k, prob, v.attr), where(f, sol[0]), "%s.%s" % (prob, k), dump(v))
                    good = False
                else:
                    rep.unrec("R1-assembly", construct, "solution field %s=%s not modelled" % (k, dump(v)[:40]))
                    good = False
        for k, (slot, role) in SLOT.items():
            v = kws.get(k)
            if v is None:
                rep.violate("R1-assembly", construct, "solution is built without %s" % k, where(f, sol[0]), k, "absent")
                good = False
                continue
            src = _sources(v, defs)
            # the optimiser's result object: locals bound to a call of pymoo's minimize()
            resn = {nm for nm, ds in defs.items() for d in ds if isinstance(d.value, ast.Call) and dump(d.value.func).split(".")[-1] == "minimize"} or {"res"}
            # classify every leaf by result slot / incumbent role
            roles = set()
            for s in src:
                base = s.split("#")[0]
                for rn_ in resn:
                    if base.startswith(rn_ + "."):
                        base = "res." + base[len(rn_) + 1:]
                if base.startswith("res.") and len(base) == 5:
                    roles.add({"X": "soln_decn", "F": "soln_obj", "G": "soln_ineqcv", "H": "soln_eqcv"}.get(base[4], "?" + base))
                elif "evalfn(" in base and "#" in s:
                    roles.add({0: "soln_obj", 1: "soln_ineqcv", 2: "soln_eqcv"}.get(int(s.split("#")[1]), "?"))
                elif "decn_space[" in base or "choice(" in base or base.endswith("_soln"):
                    roles.add("soln_decn")
                elif base.startswith("len(") or base in ("1", "nsoln"):
                    pass
                else:
                    roles.add("?" + base)
            unknown = [r for r in roles if r.startswith("?")]
            wholepop = [r for r in unknown if r.startswith("?res.pop") or r.startswith("?res.history") or r.startswith("?res.algorithm.pop")]
            if wholepop:
                rep.violate("R1-assembly", construct, "%s is taken from %s: the whole final population (dominated and infeasible members included), not the optimiser's "
                            "result set res.%s" % (k, wholepop[0][1:], slot), where(f, sol[0]), "res.%s" % slot, wholepop[0][1:])
                good = False
            elif unknown:
                rep.unrec("R1-assembly", construct, "%s built from %s (not modelled)" % (k, ", ".join(sorted(unknown))[:80]))
                good = False
            elif roles != {k}:
                rep.violate("R1-assembly", construct, "%s is filled from the %s slot(s) of the result" % (k, ", ".join(sorted(r[5:] for r in roles)) or "<none>"),
                            where(f, sol[0]), SLOT[k][0] + " / incumbent " + role, ", ".join(sorted(roles)))
                good = False
        if good:
            rep.ok("R1-assembly", construct, "problem attributes by name; decision/objective/inequality/equality from X/F/G/H or the incumbent tuple")


def _fresh(e, defs, prob, depth=0):
    """True if the expression yields storage that does not alias prob.* (fresh), False if it is a view of prob.*, None unknown"""
    if depth > 4:
        return None
    if isinstance(e, ast.Name) and e.id in defs and len(defs[e.id]) == 1:
        return _fresh(defs[e.id][0].value, defs, prob, depth + 1)
    if isinstance(e, ast.Call):
        nm = e.func.attr if isinstance(e.func, ast.Attribute) else (e.func.id if isinstance(e.func, ast.Name) else "")
        if nm in FRESH_CALLS:
            return True
        return None
    if isinstance(e, ast.Subscript):
        idx = e.slice
        basic = isinstance(idx, ast.Slice) or (isinstance(idx, ast.Tuple) and all(isinstance(x, (ast.Slice, ast.Constant)) for x in idx.elts)) \
            or isinstance(idx, ast.Constant)
        if basic:
            base = e.value
            if isinstance(base, ast.Attribute) and dump(base.value) == prob:
                return False
            return _fresh(base, defs, prob, depth + 1)
        # fancy / boolean index: fresh whenever the index is an array expression (call, name bound to an array expression)
        return True
    if isinstance(e, ast.Attribute) and dump(e.value) == prob:
        return False
    return None


def _canonical_scheme(prog, f):
    """
    Discover the roles of the exchange search from structure (never from names) and return a copy of the function in which the locals carry the
    canonical names the value rules are written against: incumbent gbest_*, scan-best best_*, proposal prop_*.  None when a role cannot be found.
      incumbent decision / triple : the arrays handed to the Solution constructor as soln_decn / soln_obj / soln_ineqcv / soln_eqcv
      proposal triple             : the tuple assigned from <prob>.evalfn(<incumbent decision>) inside the scan
      scan-best triple            : the tuple assigned from the incumbent triple at the top of the search loop
      scores / violations         : X.sum() of an objective role, A.sum() + B.sum() of the two violation roles; scan-best = copy of the incumbent's
      best_i / best_j             : the locals set to the outer / inner scan variable on acceptance
    """
    import copy
    prob = f.params()[1] if len(f.params()) > 1 else "prob"
    node = f.node
    sol = [n for n in ast.walk(node) if isinstance(n, ast.Call) and isinstance(n.func, ast.Name) and n.func.id.endswith("Solution")]
    if len(sol) != 1:
        return None
    kws, _ = kwargs_of(sol[0])
    role = {}

    def stacked(e):
        if isinstance(e, ast.Call) and e.args and isinstance(e.args[0], (ast.List, ast.Tuple)) and len(e.args[0].elts) == 1 and isinstance(e.args[0].elts[0], ast.Name):
            return e.args[0].elts[0].id
        return e.id if isinstance(e, ast.Name) else None
    for k, canon in (("soln_decn", "gbest_soln"), ("soln_obj", "gbest_obj"), ("soln_ineqcv", "gbest_ineqcv"), ("soln_eqcv", "gbest_eqcv")):
        nm = stacked(kws.get(k)) if k in kws else None
        if nm is None:
            return None
        role[nm] = canon
    inv = {v: k for k, v in role.items()}
    assigns = [n for n in ast.walk(node) if isinstance(n, ast.Assign) and len(n.targets) == 1]

    def tup(e):
        return [x.id for x in e.elts] if isinstance(e, ast.Tuple) and all(isinstance(x, ast.Name) for x in e.elts) else None
    gtrip = [inv["gbest_obj"], inv["gbest_ineqcv"], inv["gbest_eqcv"]]
    for a in assigns:
        t, v = tup(a.targets[0]), tup(a.value)
        if t and v == gtrip and len(t) == 3 and t != gtrip:
            for nm, canon in zip(t, ("best_obj", "best_ineqcv", "best_eqcv")):
                role.setdefault(nm, canon)
        if t and len(t) == 3 and isinstance(a.value, ast.Call) and dump(a.value.func) == "%s.evalfn" % prob and t != gtrip:
            for nm, canon in zip(t, ("prop_obj", "prop_ineqcv", "prop_eqcv")):
                role.setdefault(nm, canon)
    # the same hand-over written as three plain assignments (the model reads `a, b, c = x, y, z` as that sequence)
    for a in assigns:
        if isinstance(a.targets[0], ast.Name) and isinstance(a.value, ast.Name) and a.value.id in gtrip and a.targets[0].id not in gtrip:
            role.setdefault(a.targets[0].id, ("best_obj", "best_ineqcv", "best_eqcv")[gtrip.index(a.value.id)])
    inv = {v: k for k, v in role.items()}
    if not all(k in inv for k in ("best_obj", "prop_obj", "best_ineqcv", "prop_eqcv")):
        return None
    for pre in ("gbest", "prop"):
        o, i_, e = inv[pre + "_obj"], inv[pre + "_ineqcv"], inv[pre + "_eqcv"]
        for a in assigns:
            if isinstance(a.targets[0], ast.Name):
                t = "".join(dump(a.value).split())
                if t == "%s.sum()" % o:
                    role.setdefault(a.targets[0].id, pre + "_score")
                elif t in ("%s.sum()+%s.sum()" % (i_, e), "%s.sum()+%s.sum()" % (e, i_)):
                    role.setdefault(a.targets[0].id, pre + "_cv")
    inv = {v: k for k, v in role.items()}
    if not all(k in inv for k in ("gbest_score", "gbest_cv", "prop_score", "prop_cv")):
        return None
    for a in assigns:
        if isinstance(a.targets[0], ast.Name) and isinstance(a.value, ast.Name) and a.targets[0].id not in role:
            if a.value.id == inv["gbest_score"]:
                role[a.targets[0].id] = "best_score"
            elif a.value.id == inv["gbest_cv"]:
                role[a.targets[0].id] = "best_cv"
    # best_i / best_j: set to the scan variables
    loops = [n for n in ast.walk(node) if isinstance(n, ast.For) and isinstance(n.target, ast.Name)]
    nest = [(o, i_) for o in loops for i_ in o.body if isinstance(i_, ast.For) and isinstance(i_.target, ast.Name)]
    if len(nest) != 1:
        return None
    ov, iv = nest[0][0].target.id, nest[0][1].target.id
    for a in assigns:
        if isinstance(a.targets[0], ast.Name) and isinstance(a.value, ast.Name) and a.targets[0].id not in role:
            if a.value.id == ov:
                role[a.targets[0].id] = "best_i"
            elif a.value.id == iv:
                role[a.targets[0].id] = "best_j"
    if sorted(role.values()) != sorted(set(role.values())) or len(set(role.values())) < 17:
        return None
    if all(k == v for k, v in role.items()):
        return f
    taken = {n.id for n in ast.walk(node) if isinstance(n, ast.Name)} - set(role)
    if taken & set(role.values()):
        return None
    new = copy.deepcopy(node)
    for n in ast.walk(new):
        if isinstance(n, ast.Name) and n.id in role:
            n.id = role[n.id]
    g = copy.copy(f)
    g.node = new
    return g


def check_hillclimber(prog, rep, mod, cname):
    c = prog.get_class(cname, mod)
    f = prog.own_method(c, "minimize")
    rep.saw(f)
    construct = f.qualname
    fc = _canonical_scheme(prog, f)
    if fc is not None:
        f = fc
    prob = f.params()[1]
    defs = _defs(f)
    adefs = _alldefs(f)
    body = body_nodoc(f.node)
    # the value rules below are written against the function's own naming scheme (incumbent gbest_*, scan-best best_*, proposal prop_*);
    # if that scheme is gone the function was rewritten and the rule cannot decide (never a verdict)
    scheme = ["gbest_obj", "gbest_ineqcv", "gbest_eqcv", "gbest_score", "gbest_cv", "best_i", "best_j", "best_obj", "best_ineqcv", "best_eqcv",
              "best_score", "best_cv", "prop_obj", "prop_ineqcv", "prop_eqcv", "prop_score", "prop_cv"]
    missing = [n for n in scheme if n not in adefs]
    if missing:
        rep.unrec("R3-swaps", construct, "naming scheme of the exchange search changed (no assignment to %s): rule not applicable as written" % ", ".join(missing[:4]))
        return
    wl = [s for s in body if isinstance(s, ast.While)]
    if len(wl) != 1:
        rep.unrec("R3-swaps", construct, "expected one search loop")
        return
    wl = wl[0]
    outer = [s for s in wl.body if isinstance(s, ast.For)]
    if len(outer) != 1 or len([s for s in outer[0].body if isinstance(s, ast.For)]) != 1:
        rep.unrec("R3-swaps", construct, "expected a doubly nested exchange scan")
        return
    outer = outer[0]
    inner = [s for s in outer.body if isinstance(s, ast.For)][0]
    i, j = dump(outer.target), dump(inner.target)
    # arrays swapped
    sw0 = _swap(inner.body[0]) if inner.body else None
    if sw0 is None:
        rep.violate("R3-swaps", construct, "an exchange step does not begin with a two-element swap", where(f, inner), "a[i], b[j] = b[j], a[i]", dump(inner.body[0])[:50] if inner.body else "")
        return
    # the swap is between two arrays: parse
    st0 = inner.body[0]
    A = st0.targets[0].elts[0].value.id
    B = st0.targets[0].elts[1].value.id
    if dump(st0.targets[0].elts[0].slice) != i or dump(st0.targets[0].elts[1].slice) != j:
        rep.unrec("R3-swaps", construct, "swap indices are not the scan variables")
        return
    good = True
    # ---- scan ranges cover every (member, candidate) pair
    if dump(outer.iter) != "range(len(%s))" % A or dump(inner.iter) != "range(len(%s))" % B:
        rep.violate("R3-swaps", construct, "exchange scan covers %s x %s, not every member of the incumbent with every unused candidate" % (dump(outer.iter), dump(inner.iter)),
                    where(f, outer), "range(len(%s)) x range(len(%s))" % (A, B), "%s x %s" % (dump(outer.iter), dump(inner.iter)))
        good = False
    # ---- R4 creation of the incumbent and of the complement
    a_def = defs.get(A, [])
    b_def = defs.get(B, [])
    if len(a_def) != 1 or len(b_def) != 1:
        rep.unrec("R4-subsets", construct, "incumbent / complement not single assignments")
        return
    av = a_def[0].value
    if isinstance(av, ast.Call) and isinstance(av.func, ast.Attribute) and av.func.attr == "choice":
        kws, _ = kwargs_of(av)
        repl = kws.get("replace") if "replace" in kws else (av.args[2] if len(av.args) > 2 else None)
        pool = av.args[0] if av.args else kws.get("a")
        size = av.args[1] if len(av.args) > 1 else kws.get("size")
        if dump(pool) != "%s.decn_space" % prob or dump(size) != "%s.ndecn" % prob:
            rep.violate("R4-subsets", construct, "initial subset is choice(%s, %s), not ndecn members of the candidate set" % (dump(pool), dump(size)), where(f, av),
                        "choice(%s.decn_space, %s.ndecn, replace=False)" % (prob, prob), dump(av)[:60])
            good = False
        if repl is None or not (isinstance(repl, ast.Constant) and repl.value is False):
            rep.violate("R4-subsets", construct, "initial subset is sampled WITH replacement: the incumbent can contain duplicates that no exchange removes",
                        where(f, av), "replace=False", dump(repl) if repl is not None else "default (True)")
            good = False
        else:
            rep.ok("R4-subsets", construct + "#initial", "initial subset drawn without replacement from decn_space")
    elif isinstance(av, ast.Subscript) and dump(av.value) == "%s.decn_space" % prob:
        src = _sources(av.slice, adefs)
        if any("argsort" in s for s in src):
            rep.ok("R4-subsets", construct + "#initial", "initial subset = decn_space[distinct positions of an argsort]")
        else:
            rep.unrec("R4-subsets", construct, "initial subset index %s not modelled" % dump(av.slice)[:40])
            good = False
    else:
        rep.unrec("R4-subsets", construct, "initial subset construction not modelled: %s" % dump(av)[:60])
        good = False
    bv = b_def[0].value
    want_b = ["%s.decn_space[numpy.logical_not(numpy.in1d(%s.decn_space, %s))]" % (prob, prob, A), "%s.decn_space[~numpy.in1d(%s.decn_space, %s)]" % (prob, prob, A),
              "%s.decn_space[~numpy.isin(%s.decn_space, %s)]" % (prob, prob, A), "%s.decn_space[numpy.logical_not(numpy.isin(%s.decn_space, %s))]" % (prob, prob, A)]
    if dump(bv) in want_b:
        rep.ok("R4-subsets", construct + "#complement", "working complement = candidates not in the incumbent")
    elif "in1d" in dump(bv) or "isin" in dump(bv):
        rep.violate("R4-subsets", construct, "working set is %s, not the candidates outside the incumbent (members could be exchanged for themselves / non-members)"
                    % dump(bv)[:70], where(f, bv), want_b[0], dump(bv)[:70])
        good = False
    else:
        rep.unrec("R4-subsets", construct, "working complement not modelled: %s" % dump(bv)[:60])
        good = False
    # ---- R5 fresh storage
    for nm, v in ((A, av), (B, bv)):
        fr = _fresh(v, defs, prob)
        if fr is False:
            rep.violate("R5-problem", construct, "%s is a view of the problem's own array (%s) and is exchanged in place: the problem object is modified" % (nm, dump(v)[:40]),
                        where(f, v), "a copy / fancy-indexed array", dump(v)[:40])
            good = False
        elif fr is None:
            rep.unrec("R5-problem", construct, "aliasing of %s not decided: %s" % (nm, dump(v)[:40]))
            good = False
        else:
            rep.ok("R5-problem", construct + "#" + nm, "%s is fresh storage (not a view of %s.*)" % (nm, prob))
    for n in walk_no_nested(f.node):
        if isinstance(n, (ast.Attribute, ast.Subscript)) and isinstance(n.ctx, ast.Store):
            base = n
            while isinstance(base, (ast.Attribute, ast.Subscript)):
                base = base.value
            if isinstance(base, ast.Name) and base.id == prob:
                rep.violate("R5-problem", construct, "store through the problem object: %s" % dump(n)[:40], where(f, n), "no store", dump(n)[:40])
                good = False
    # ---- scan body paths
    def classify(st):
        sw = _swap(st)
        if sw is not None:
            return [Event("swap", st, (dump(st.targets[0].elts[0]), dump(st.targets[0].elts[1])))]
        if isinstance(st, ast.Assign) and len(st.targets) == 1:
            t, v = st.targets[0], st.value
            if isinstance(v, ast.Call) and dump(v.func) == "%s.evalfn" % prob:
                return [Event("eval", st, (dump(t), dump(v.args[0]) if v.args else None))]
            if isinstance(t, ast.Tuple) and isinstance(v, ast.Tuple):
                return [Event("set:" + dump(te), st, dump(ve)) for te, ve in zip(t.elts, v.elts)]
            return [Event("set:" + dump(t), st, dump(v))]
        return [Event("?" + dump(st)[:30], st)]

    paths = enumerate_paths(inner.body, classify, cond_events=lambda e: [])
    prop = None
    acc_paths = 0
    for p in paths:
        evs = [e for e in p if not e.name.startswith("<") or e.name == "<if>"]
        w = [e.name for e in evs if e.name != "<if>"]
        if any(x.startswith("?") for x in w):
            rep.unrec("R3-swaps", construct, "scan statement not modelled: %s" % [x for x in w if x.startswith("?")])
            good = False
            continue
        sws = [e for e in evs if e.name == "swap"]
        if len(sws) != 2 or w[0] != "swap" or w[-1] != "swap" or sws[0].data != sws[1].data:
            rep.violate("R3-swaps", construct, "a scan path does not undo its trial exchange (swap ... same swap back): %s" % " ".join(w)[:80], where(f, inner),
                        "swap eval ... swap", " ".join(w)[:80])
            good = False
            continue
        ev = [e for e in evs if e.name == "eval"]
        if len(ev) != 1 or w.index("eval") != 1 or ev[0].data[1] != A:
            rep.violate("R2-truthful", construct, "candidate is not evaluated as %s.evalfn(%s) while the trial exchange is applied" % (prob, A), where(f, inner),
                        "swap, %s.evalfn(%s)" % (prob, A), " ".join(w)[:60])
            good = False
            continue
        prop = ev[0].data[0]
        sets = {e.name[4:]: e.data for e in evs if e.name.startswith("set:")}
        conds = [e for e in evs if e.name == "<if>" and e.data[1] is True]
        if conds:
            acc_paths += 1
            t = conds[-1].data[0]
            # accepted: best_i, best_j, best triple, best_score, best_cv all from the proposal
            need = {"best_i": i, "best_j": j}
            for k, vv in need.items():
                if sets.get(k) != vv:
                    rep.violate("R2-truthful", construct, "accepting an exchange records %s = %s instead of %s (another exchange than the evaluated one is applied)"
                                % (k, sets.get(k), vv), where(f, inner), "%s = %s" % (k, vv), str(sets.get(k)))
                    good = False
            ptuple = prop.strip("()").split(", ")
            btuple = [x.replace("prop_", "best_") for x in ptuple]
            for bb, pp in list(zip(btuple, ptuple)) + [("best_score", "prop_score"), ("best_cv", "prop_cv")]:
                if sets.get(bb) != pp:
                    rep.violate("R2-truthful", construct, "accepting an exchange stores %s = %s, not the proposal's %s: later proposals of the scan are compared with a stale value"
                                % (bb, sets.get(bb), pp), where(f, inner), pp, str(sets.get(bb)))
                    good = False
    ifs_ = [s_ for s_ in inner.body if isinstance(s_, ast.If)]
    merged = len(ifs_) == 1 and not ifs_[0].orelse and isinstance(ifs_[0].test, ast.BoolOp) and isinstance(ifs_[0].test.op, ast.Or) and len(ifs_[0].test.values) == 2
    if acc_paths < 2 and not (merged and acc_paths == 1):
        rep.unrec("R3-swaps", construct, "expected two acceptance branches (smaller violation; equal violation and smaller score)")
        good = False
    # acceptance conditions (lexicographic)
    ifs = [s for s in inner.body if isinstance(s, ast.If)]
    def _nt(t):
        """comparison text with the proposal on the left (a < b is b > a); conjunctions with sorted parts"""
        if t is None:
            return None
        if isinstance(t, ast.BoolOp) and isinstance(t.op, ast.And):
            return " and ".join(sorted(_nt(v) for v in t.values))
        o = oriented(t, lambda e: dump(e).startswith("prop_"))
        return dump(o if o is not None else t)
    if len(ifs) == 1:
        if merged:
            # one branch for `A or (B and C)`: the two acceptance cases written as one test with one body
            t1, t2 = _nt(ifs[0].test.values[0]), _nt(ifs[0].test.values[1])
        else:
            t1 = _nt(ifs[0].test)
            t2 = _nt(ifs[0].orelse[0].test) if ifs[0].orelse and isinstance(ifs[0].orelse[0], ast.If) else None
        if t1 != "prop_cv < best_cv" or t2 not in ("prop_cv == best_cv and prop_score < best_score",):
            rep.violate("R3-swaps", construct, "acceptance is (%s) / (%s), not lexicographic (violation <) then (violation == and score <)" % (t1, t2), where(f, ifs[0]),
                        "prop_cv < best_cv | prop_cv == best_cv and prop_score < best_score", "%s | %s" % (t1, t2))
            good = False
    else:
        rep.unrec("R3-swaps", construct, "acceptance not a single if/elif")
        good = False
    # score definitions
    for nm, want in (("prop_score", "prop_obj.sum()"), ("prop_cv", "prop_ineqcv.sum() + prop_eqcv.sum()"), ("gbest_score", "gbest_obj.sum()"),
                     ("gbest_cv", "gbest_ineqcv.sum() + gbest_eqcv.sum()")):
        ds = [dump(a.value) for a in adefs.get(nm, []) if not isinstance(a.value, ast.Name)]
        if not ds or any(d != want for d in ds):
            rep.violate("R3-swaps", construct, "%s is %s, not %s" % (nm, ds, want), where(f), want, str(ds))
            good = False
    # ---- after the scan: stop iff no improving exchange; otherwise apply the recorded exchange and take its values
    post = wl.body[wl.body.index(outer) + 1:]
    pre = wl.body[:wl.body.index(outer)]
    pre_sets = {}
    for s in pre:
        if isinstance(s, ast.Assign):
            t, v = s.targets[0], s.value
            if isinstance(t, ast.Tuple) and isinstance(v, ast.Tuple):
                for te, ve in zip(t.elts, v.elts):
                    pre_sets[dump(te)] = dump(ve)
            else:
                pre_sets[dump(t)] = dump(v)
    want_pre = {"best_i": "None", "best_j": "None", "best_obj": "gbest_obj", "best_ineqcv": "gbest_ineqcv", "best_eqcv": "gbest_eqcv", "best_score": "gbest_score",
                "best_cv": "gbest_cv"}
    for k, v in want_pre.items():
        if pre_sets.get(k) != v:
            rep.violate("R3-swaps", construct, "each scan must start from the incumbent: %s = %s (found %s)" % (k, v, pre_sets.get(k)), where(f, wl), "%s = %s" % (k, v),
                        str(pre_sets.get(k)))
            good = False
    brk = [s for s in post if isinstance(s, ast.If) and any(isinstance(x, ast.Break) for x in s.body)]
    if len(brk) != 1 or dump(brk[0].test) not in ("best_i is None or best_j is None", "best_i is None", "best_j is None or best_i is None"):
        rep.violate("R3-swaps", construct, "the search does not stop exactly when a complete scan found no improving exchange", where(f, wl),
                    "if best_i is None or best_j is None: break", dump(brk[0].test) if brk else "absent")
        good = False
    app = [s for s in post if _swap(s) is not None]
    if len(app) != 1 or (dump(app[0].targets[0].elts[0]), dump(app[0].targets[0].elts[1])) != ("%s[best_i]" % A, "%s[best_j]" % B):
        rep.violate("R2-truthful", construct, "the accepted exchange that is applied is not (%s[best_i], %s[best_j])" % (A, B), where(f, wl),
                    "%s[best_i], %s[best_j] = %s[best_j], %s[best_i]" % (A, B, B, A), dump(app[0])[:60] if app else "absent")
        good = False
    post_sets = {}
    for s in post:
        if isinstance(s, ast.Assign) and _swap(s) is None:
            t, v = s.targets[0], s.value
            if isinstance(t, ast.Tuple) and isinstance(v, ast.Tuple):
                for te, ve in zip(t.elts, v.elts):
                    post_sets[dump(te)] = dump(ve)
            else:
                post_sets[dump(t)] = dump(v)
    want_post = {"gbest_obj": "best_obj", "gbest_ineqcv": "best_ineqcv", "gbest_eqcv": "best_eqcv", "gbest_score": "best_score", "gbest_cv": "best_cv"}
    for k, v in want_post.items():
        if post_sets.get(k) != v:
            rep.violate("R2-truthful", construct, "after applying the best exchange the incumbent's %s must become %s (found %s): stale values would be reported" % (k, v, post_sets.get(k)),
                        where(f, wl), "%s = %s" % (k, v), str(post_sets.get(k)))
            good = False
    # initial evaluation of the incumbent
    init = [a for a in adefs.get("gbest_obj", []) if isinstance(a.value, ast.Call) and dump(a.value.func) == "%s.evalfn" % prob]
    if len(init) != 1 or dump(init[0].value.args[0]) != A or dump(init[0].targets[0]) != "(gbest_obj, gbest_ineqcv, gbest_eqcv)":
        rep.violate("R2-truthful", construct, "the initial incumbent is not evaluated as (gbest_obj, gbest_ineqcv, gbest_eqcv) = %s.evalfn(%s)" % (prob, A), where(f),
                    "%s.evalfn(%s)" % (prob, A), dump(init[0])[:60] if init else "absent")
        good = False
    if good:
        rep.ok("R3-swaps", construct, "trial swap / evaluate / lexicographic accept / swap back on all %d scan paths; full %s x %s scan; stop only without improvement"
               % (len(paths), A, B), sample={"function": construct, "scan_paths": len(paths)})
        rep.ok("R2-truthful", construct, "reported triple is always prob.evalfn(incumbent) taken while the applied exchange was in place")


def check_sorting(prog, rep):
    """name-independent: trace the reported decision back through decn_space[positions], positions = order[0:ndecn, 0], order = obj.argsort(0)"""
    for mod, cname in (("pybrops.opt.algo.SortingSubsetOptimizationAlgorithm", "SortingSubsetOptimizationAlgorithm"),) + tuple(HILL[1:]):
        c = prog.get_class(cname, mod)
        f = prog.own_method(c, "minimize")
        rep.saw(f)
        construct = f.qualname
        prob = f.params()[1]
        defs = _defs(f)

        def one(name):
            v = defs.get(name, [])
            return v[0].value if len(v) == 1 else None

        # the subset that is re-evaluated as a whole: first prob.evalfn(<Name>) outside comprehensions/loops
        re_ev = [n for n in body_nodoc(f.node) if isinstance(n, ast.Assign) and isinstance(n.value, ast.Call) and dump(n.value.func) == "%s.evalfn" % prob
                 and n.value.args and isinstance(n.value.args[0], ast.Name)]
        alt = [n for n in body_nodoc(f.node) if isinstance(n, ast.Assign) and isinstance(n.value, ast.Call) and dump(n.value.func) == "%s.evalfn" % prob
               and n.value.args and isinstance(n.value.args[0], ast.Subscript) and dump(n.value.args[0].value) == "%s.decn_space" % prob]
        if not re_ev and alt:
            inner = dump(alt[0].value.args[0].slice)
            rep.violate("R2-truthful", construct, "values are computed for decn_space[%s] but the decision handed to the solution is %s itself (sort positions, not candidate labels): "
                        "the reported values are not an evaluation of the reported decision" % (inner, inner), where(f, alt[0]), "evaluate and report the same array", dump(alt[0].value)[:60])
            continue
        if not re_ev:
            rep.violate("R6-sorting", construct, "the chosen subset is never re-evaluated as a whole (reported values would be single-member scores)", where(f),
                        "%s.evalfn(<chosen subset>)" % prob, "absent")
            continue
        S = re_ev[0].value.args[0].id
        sv = one(S)
        good = True
        if sv is None:
            rep.unrec("R6-sorting", construct, "chosen subset %s not a single assignment" % S)
            continue
        if not (isinstance(sv, ast.Subscript) and dump(sv.value) == "%s.decn_space" % prob):
            # positions handed out as if they were candidate labels?
            src = _sources(sv, _alldefs(f))
            if any("argsort" in x for x in src):
                rep.violate("R6-sorting", construct, "the returned decision holds sort positions (%s), not the candidate labels decn_space[positions]" % dump(sv)[:50],
                            where(f, sv), "%s.decn_space[<positions>]" % prob, dump(sv)[:50])
            else:
                rep.unrec("R6-sorting", construct, "chosen subset %s = %s not modelled" % (S, dump(sv)[:50]))
            continue
        pos = sv.slice
        pv = one(pos.id) if isinstance(pos, ast.Name) else pos
        if not (isinstance(pv, ast.Subscript) and isinstance(pv.slice, ast.Tuple) and len(pv.slice.elts) == 2 and isinstance(pv.value, ast.Name)):
            rep.unrec("R6-sorting", construct, "positions %s not order[a:b, 0]" % dump(pos)[:40])
            continue
        sl, col = pv.slice.elts
        nd_names = {"%s.ndecn" % prob} | {k for k, v in defs.items() if len(v) == 1 and dump(v[0].value) == "%s.ndecn" % prob}
        if not (isinstance(sl, ast.Slice) and (sl.lower is None or is_const(sl.lower, 0)) and sl.step is None and sl.upper is not None and dump(sl.upper) in nd_names):
            rep.violate("R6-sorting", construct, "chosen positions are order[%s], not the first ndecn of the ascending order" % dump(sl), where(f, pv), "order[0:ndecn, 0]", dump(pv))
            good = False
        if not is_const(col, 0):
            rep.violate("R6-sorting", construct, "positions are read from column %s of the order (single-objective order is column 0)" % dump(col), where(f, pv), "0", dump(col))
            good = False
        ov = one(pv.value.id)
        if ov is None:
            rep.unrec("R6-sorting", construct, "order array not a single assignment")
            continue
        asc = None
        if isinstance(ov, ast.Call) and isinstance(ov.func, ast.Attribute) and ov.func.attr == "argsort":
            kws, _ = kwargs_of(ov)
            ax = ov.args[0] if ov.args else kws.get("axis")
            objn = ov.func.value
            if dump(ov.func.value) in ("numpy", "np"):
                objn = ov.args[0]
                ax = ov.args[1] if len(ov.args) > 1 else kws.get("axis")
            if isinstance(objn, ast.UnaryOp) and isinstance(objn.op, ast.USub):
                rep.violate("R6-sorting", construct, "candidates are ordered descending on the objective (argsort of the negated scores): the worst members are taken for a minimisation",
                            where(f, ov), "obj.argsort(0)", dump(ov))
                good = False
                objn = objn.operand
            if ax is None or not is_const(ax, 0):
                rep.violate("R6-sorting", construct, "scores are sorted along axis %s, not along the candidate axis 0" % (dump(ax) if ax is not None else "-1 (default)"),
                            where(f, ov), "argsort(0)", dump(ov))
                good = False
        elif isinstance(ov, ast.Subscript) and "argsort" in dump(ov) and "::-1" in dump(ov):
            rep.violate("R6-sorting", construct, "candidates are ordered descending on the objective (%s)" % dump(ov), where(f, ov), "obj.argsort(0)", dump(ov))
            good = False
            objn = None
        else:
            rep.unrec("R6-sorting", construct, "order %s not an argsort" % dump(ov)[:40])
            continue
        # the sorted scores are the single-member objectives over the whole candidate set
        if objn is not None:
            src = _sources(objn, _alldefs(f))
            lc = [n for n in walk_no_nested(f.node) if isinstance(n, ast.ListComp)]
            want_ev = "[%s.evalfn(numpy.array([e])) for e in %s.decn_space]" % (prob, prob)
            if not any(dump(n) == want_ev or (len(n.generators) == 1 and dump(n.generators[0].iter) == "%s.decn_space" % prob and "evalfn" in dump(n.elt)
                                               and not n.generators[0].ifs) for n in lc):
                # the same scan written as a loop: for e in prob.decn_space: ... prob.evalfn(numpy.array([e])) ...
                loops_ = [n for n in walk_no_nested(f.node) if isinstance(n, ast.For) and dump(n.iter) == "%s.decn_space" % prob
                          and any(isinstance(c_, ast.Call) and dump(c_.func) == "%s.evalfn" % prob for c_ in ast.walk(n))]
                if loops_:
                    rep.unrec("R6-sorting", construct, "members are scored in an explicit loop over the candidate set (another formulation of the scan)")
                    good = False
                    continue
                rep.violate("R6-sorting", construct, "members are not scored one at a time over the whole candidate set", where(f), want_ev, "other")
                good = False
            elif not any("zip(*" in x and x.endswith("#0") for x in src):
                rep.unrec("R6-sorting", construct, "sorted scores %s are not the objective component of the single-member evaluations (%s)" % (dump(objn), sorted(src)[:2]))
                good = False
        if good:
            rep.ok("R6-sorting", construct, "score each member alone; argsort ascending; first ndecn positions; decn_space[positions]; re-evaluate the subset")


def check_operators(prog, rep):
    mod = prog.module("pybrops.opt.algo.pymoo_addon")
    # SubsetRandomSampling: replace flag comes from the operator, default False, and no GA wrapper overrides it
    c = mod.classes.get("SubsetRandomSampling")
    if c is None:
        raise AnalysisError("anchor class vanished: SubsetRandomSampling")
    f = prog.own_method(c, "_do")
    rep.saw(f)
    ch = [n for n in walk_no_nested(f.node) if isinstance(n, ast.Call) and isinstance(n.func, ast.Attribute) and n.func.attr == "choice"]
    good = True
    if len(ch) != 1:
        rep.unrec("R4-subsets", f.qualname, "expected one choice call")
        good = False
    else:
        kws, _ = kwargs_of(ch[0])
        repl = kws.get("replace") if "replace" in kws else (ch[0].args[2] if len(ch[0].args) > 2 else None)
        pool = ch[0].args[0] if ch[0].args else kws.get("a")
        ldefs = {n.targets[0].id: n.value for n in walk_no_nested(f.node) if isinstance(n, ast.Assign) and len(n.targets) == 1 and isinstance(n.targets[0], ast.Name)}
        hops = 0
        while isinstance(pool, ast.Name) and pool.id in ldefs and hops < 4:
            pool, hops = ldefs[pool.id], hops + 1
        if field_of(pool) != "setspace":
            rep.violate("R4-subsets", f.qualname, "individuals are sampled from %s, not from the operator's set space" % dump(pool), where(f, ch[0]), "self._setspace", dump(pool))
            good = False
        if repl is None:
            rep.violate("R4-subsets", f.qualname, "individuals are sampled with numpy's default replace=True: subsets with duplicate members", where(f, ch[0]), "replace=self._replace (False)", "default")
            good = False
        elif isinstance(repl, ast.Constant):
            if repl.value is not False:
                rep.violate("R4-subsets", f.qualname, "individuals are sampled with replacement", where(f, ch[0]), "replace=False", dump(repl))
                good = False
        elif field_of(repl) != "replace":
            rep.unrec("R4-subsets", f.qualname, "replace argument %s not modelled" % dump(repl))
            good = False
    init = prog.own_method(c, "__init__")
    a = init.node.args
    dflt = dict(zip([x.arg for x in a.args[len(a.args) - len(a.defaults):]], a.defaults))
    if "replace" in dflt and not (isinstance(dflt["replace"], ast.Constant) and dflt["replace"].value is False):
        rep.violate("R4-subsets", init.qualname, "default of `replace` is %s" % dump(dflt["replace"]), where(init), "False", dump(dflt["replace"]))
        good = False
    n_over = 0
    for cc, ff in algo_classes(prog):
        for n in walk_no_nested(ff.node):
            if isinstance(n, ast.Call) and isinstance(n.func, ast.Name) and n.func.id == "SubsetRandomSampling":
                kws, _ = kwargs_of(n)
                n_over += 1
                if "replace" in kws and not (isinstance(kws["replace"], ast.Constant) and kws["replace"].value is False):
                    rep.violate("R4-subsets", ff.qualname, "GA wrapper builds the sampling operator with replace=%s" % dump(kws["replace"]), where(ff, n), "replace=False", dump(kws["replace"]))
                    good = False
                if len(n.args) > 1:
                    rep.unrec("R4-subsets", ff.qualname, "positional replace argument")
                    good = False
                sp = kws.get("setspace") if "setspace" in kws else (n.args[0] if n.args else None)
                if sp is None or not dump(sp).endswith(".decn_space"):
                    rep.violate("R4-subsets", ff.qualname, "sampling operator is given %s as set space, not the problem's decn_space" % (dump(sp) if sp is not None else "nothing"),
                                where(ff, n), "prob.decn_space", dump(sp) if sp is not None else "absent")
                    good = False
    if good:
        rep.ok("R4-subsets", f.qualname, "choice(setspace, n_var, replace=self._replace); default False; %d GA wrappers construct it without overriding" % n_over)
    # ReducedExchangeCrossover: pools A\\B and B\\A through the same masks
    c = mod.classes.get("ReducedExchangeCrossover")
    f = prog.own_method(c, "_do")
    rep.saw(f)
    defs = {}
    for n in walk_no_nested(f.node):
        if isinstance(n, ast.Assign) and len(n.targets) == 1 and isinstance(n.targets[0], ast.Name):
            defs[n.targets[0].id] = n.value
    loop = [s for s in body_nodoc(f.node) if isinstance(s, ast.For)]
    good = True
    if len(loop) != 1:
        rep.unrec("R4-subsets", f.qualname, "expected one loop over matings")
        return
    i = dump(loop[0].target)
    # copies: Xp = np.copy(X)
    Xp = [k for k, v in defs.items() if isinstance(v, ast.Call) and dump(v.func) == "numpy.copy" or (isinstance(v, ast.Call) and isinstance(v.func, ast.Attribute) and v.func.attr == "copy")]
    if not Xp:
        rep.violate("R5-problem", f.qualname, "parents are edited in place (no copy of X)", where(f), "Xp = np.copy(X)", "absent")
        return
    Xp = Xp[0]
    m1 = canon_text("~numpy.isin(%s[0, %s, :], %s[1, %s, :])" % (Xp, i, Xp, i))
    m2 = canon_text("~numpy.isin(%s[1, %s, :], %s[0, %s, :])" % (Xp, i, Xp, i))

    def canon_mask(v):
        """text of a complement-of-membership mask with local row views substituted and `np.isin(a, b, invert=True)` read as `~np.isin(a, b)`"""
        import copy
        v = copy.deepcopy(v)
        for _ in range(3):
            class Sub(ast.NodeTransformer):
                def visit_Name(self, n):
                    d = defs.get(n.id)
                    return copy.deepcopy(d) if (isinstance(n.ctx, ast.Load) and isinstance(d, ast.Subscript) and n.id != Xp) else n
            v = Sub().visit(v)
        if isinstance(v, ast.Call) and dump(v.func) == "numpy.isin":
            kw = {k.arg: k.value for k in v.keywords}
            if isinstance(kw.get("invert"), ast.Constant) and kw["invert"].value is True and len(v.args) == 2:
                return "~numpy.isin(%s, %s)" % (dump(v.args[0]), dump(v.args[1]))
        return dump(v)
    masks = {k: canon_mask(v) for k, v in defs.items() if "isin" in dump(v)}
    mab = [k for k, v in masks.items() if v == m1]
    mba = [k for k, v in masks.items() if v == m2]
    if (not mab or not mba) and not any(v in (m1.replace("~", "", 1), m2.replace("~", "", 1), m1.replace("[0,", "[1,"), m2.replace("[1,", "[0,")) for v in masks.values()):
        rep.unrec("R4-subsets", f.qualname, "exchange pools not in the modelled form: %s" % sorted(masks.values()))
        return
    if not mab or not mba:
        rep.violate("R4-subsets", f.qualname, "exchange pools are not (members of A not in B) and (members of B not in A): %s" % sorted(masks.values()), where(f, loop[0]),
                    "%s ; %s" % (m1, m2), str(sorted(masks.values()))[:80])
        return
    mab, mba = mab[0], mba[0]
    ap = [k for k, v in defs.items() if dump(v) == "%s[0, %s, %s]" % (Xp, i, mab)]
    bp = [k for k, v in defs.items() if dump(v) == "%s[1, %s, %s]" % (Xp, i, mba)]
    if not ap or not bp:
        crossed = [k for k, v in defs.items() if dump(v) in ("%s[0, %s, %s]" % (Xp, i, mba), "%s[1, %s, %s]" % (Xp, i, mab))]
        if crossed:
            rep.violate("R4-subsets", f.qualname, "a reduced chromosome (%s) is taken through the OTHER parent's mask" % crossed[0], where(f, loop[0]))
        else:
            rep.unrec("R4-subsets", f.qualname, "reduced chromosomes not taken as %s[k, %s, <mask>] (another formulation)" % (Xp, i))
        return
    ap, bp = ap[0], bp[0]
    sw = [s for s in loop[0].body if _swap(s) is not None]
    if not sw:
        rep.unrec("R4-subsets", f.qualname, "alleles are not exchanged by a tuple swap (another formulation)")
        return
    if len(sw) != 1 or {sw[0].targets[0].elts[0].value.id, sw[0].targets[0].elts[1].value.id} != {ap, bp} \
            or dump(sw[0].targets[0].elts[0].slice) != dump(sw[0].targets[0].elts[1].slice):
        rep.violate("R4-subsets", f.qualname, "alleles are not exchanged as %s[mex], %s[mex] = %s[mex], %s[mex] (same index vector on both sides)" % (ap, bp, bp, ap),
                    where(f, loop[0]), "pairwise swap with one index vector", dump(sw[0])[:60] if sw else "absent")
        good = False
    wb = {dump(s.targets[0]): dump(s.value) for s in loop[0].body if isinstance(s, ast.Assign) and isinstance(s.targets[0], ast.Subscript) and _swap(s) is None}
    if wb.get("%s[0, %s, %s]" % (Xp, i, mab)) != ap or wb.get("%s[1, %s, %s]" % (Xp, i, mba)) != bp:
        rep.violate("R4-subsets", f.qualname, "exchanged alleles are not written back through the masks they were taken with", where(f, loop[0]),
                    "%s[0,i,%s] = %s ; %s[1,i,%s] = %s" % (Xp, mab, ap, Xp, mba, bp), str(wb)[:80])
        good = False
    if good:
        rep.ok("R4-subsets", f.qualname, "pools A\\B and B\\A (~isin both ways), swapped with one index vector, written back through the same masks on a copy of X")
    # ReducedExchangeMutation: replaced positions are those not in the set space, pool = setspace \\ individual
    c = mod.classes.get("ReducedExchangeMutation")
    f = prog.own_method(c, "_do")
    rep.saw(f)
    txt = {dump(n.targets[0]): dump(n.value) for n in walk_no_nested(f.node) if isinstance(n, ast.Assign) and len(n.targets) == 1}
    Xm = [k for k, v in txt.items() if v in ("X.copy()", "numpy.copy(X)")]
    if not Xm:
        rep.violate("R5-problem", f.qualname, "individuals are mutated in place (no copy of X)", where(f), "Xm = X.copy()", "absent")
    else:
        Xm = Xm[0]
        loop = [s for s in body_nodoc(f.node) if isinstance(s, ast.For)]
        i = dump(loop[0].target) if loop else "i"
        # roles by definition, not by name: mab = members outside the set space, mba = set-space elements not in the individual
        mab = [k for k, v in txt.items() if v == canon_text("~numpy.isin(%s[%s, :], self.setspace)" % (Xm, i))]
        mba = [k for k, v in txt.items() if v == canon_text("~numpy.isin(self.setspace, %s[%s, :])" % (Xm, i))]
        okm = False
        if len(mab) == 1 and len(mba) == 1:
            bpn = [k for k, v in txt.items() if v == "self.setspace[%s]" % mba[0]]
            apn = [k for k, v in txt.items() if v == "%s[%s, %s]" % (Xm, i, mab[0])]
            okm = len(bpn) == 1 and len(apn) == 1 and txt.get("%s[%s, %s]" % (Xm, i, mab[0])) == apn[0]
        if okm:
            rep.ok("R4-subsets", f.qualname, "replaced positions = members outside the set space; pool = setspace \\ individual; written back through the same mask on a copy")
        else:
            rep.unrec("R4-subsets", f.qualname, "mutation masks / pool not in the modelled form")
    # R7 integer operators
    for cname in ("IntegerSimulatedBinaryCrossover", "IntegerPolynomialMutation"):
        c = mod.classes.get(cname)
        if c is None:
            raise AnalysisError("anchor class vanished: %s" % cname)
        f = prog.own_method(c, "_do")
        rep.saw(f)
        body = body_nodoc(f.node)
        asg_ = [s for s in body if isinstance(s, ast.Assign)]
        ds = [dump(s.value) for s in asg_]
        o_ = dump(asg_[0].targets[0]) if asg_ else "out"      # the local holding the real-coded operator's output
        okk = len(ds) == 2 and ds[0].startswith("super(%s, self)._do(" % cname) and ds[1] in ("%s.round(0).astype(X.dtype)" % o_, "numpy.round(%s).astype(X.dtype)" % o_,
                                                                                               "%s.round().astype(X.dtype)" % o_)
        if okk:
            rep.ok("R7-integer", f.qualname, "real-coded operator output rounded, then cast to the dtype of the input")
        elif len(ds) == 2 and "astype" in ds[1] and "round" not in ds[1]:
            rep.violate("R7-integer", f.qualname, "operator output is truncated by the cast without rounding (%s): values drift towards zero and can leave the bounds" % ds[1],
                        where(f), "out.round(0).astype(X.dtype)", ds[1])
        elif len(ds) == 2 and "round" in ds[1] and "astype" not in ds[1]:
            rep.violate("R7-integer", f.qualname, "operator output is rounded but keeps a floating dtype (%s)" % ds[1], where(f), "out.round(0).astype(X.dtype)", ds[1])
        else:
            rep.unrec("R7-integer", f.qualname, "body not (super()._do, round+astype)")


def check_bridge(prog, rep):
    """R8-bridge: the pymoo bridge `_evaluate` reports exactly what evalfn returns: out[F/G/H] are the three components of self.evalfn(x) in that order,
    untouched ("the objective and constraint values reported with each solution are exactly what a fresh evaluation ... produces")"""
    R = "R8-bridge"
    for mod, cname in (("pybrops.opt.prob.Problem", "Problem"), ("pybrops.breed.prot.sel.prob.SelectionProblem", "SelectionProblem")):
        try:
            K = prog.get_class(cname, mod)
        except Exception:
            continue
        f = K.methods.get("_evaluate")
        if f is None:
            continue
        rep.saw(f)
        # every evaluation inside the bridge is of the candidate itself: evalfn(x, ...) or evalfn(v, ...) with v a row of x
        xs = f.params()[1]
        rows = {g_.target.id for n_ in ast.walk(f.node) if isinstance(n_, (ast.ListComp, ast.GeneratorExp)) for g_ in n_.generators
                if isinstance(g_.target, ast.Name) and isinstance(g_.iter, ast.Name) and g_.iter.id == xs}
        rows |= {n_.target.id for n_ in ast.walk(f.node) if isinstance(n_, ast.For) and isinstance(n_.target, ast.Name) and isinstance(n_.iter, ast.Name) and n_.iter.id == xs}
        for c in ast.walk(f.node):
            if isinstance(c, ast.Call) and isinstance(c.func, ast.Attribute) and c.func.attr == "evalfn" and dump(c.func.value) == "self":
                a0 = c.args[0] if c.args else None
                if isinstance(a0, ast.Name) and a0.id in rows | {xs}:
                    rep.ok(R, f.qualname + "#eval%d" % c.lineno, "evalfn(%s, ...)" % a0.id)
                elif a0 is not None and not isinstance(a0, ast.Starred) and any(isinstance(n_, ast.Name) and n_.id in rows | {xs} for n_ in ast.walk(a0)):
                    rep.violate(R, f.qualname, "the candidate handed to evalfn is %s, not the candidate itself" % dump(a0)[:40], where(f, c), "self.evalfn(%s, *args, **kwargs)"
                                % sorted(rows | {xs})[0], dump(c)[:60])
                else:
                    rep.unrec(R, f.qualname, "evalfn argument %s not modelled" % (dump(a0)[:40] if a0 is not None else "<none>"))
        ups = [c for c in ast.walk(f.node) if isinstance(c, ast.Call) and isinstance(c.func, ast.Attribute) and c.func.attr == "update" and c.args
               and isinstance(c.args[0], ast.DictComp)]
        stores = [n for n in ast.walk(f.node) if isinstance(n, ast.Subscript) and isinstance(n.ctx, ast.Store) and isinstance(n.value, ast.Name) and n.value.id == f.params()[2]]
        if stores:
            # explicit stores out["F"] = obj ...: each key receives the component of `a, b, c = self.evalfn(...)` that stands at its position (F, G, H) = (0, 1, 2)
            pos = {}
            for st in ast.walk(f.node):
                if isinstance(st, ast.Assign) and isinstance(st.targets[0], ast.Tuple) and isinstance(st.value, ast.Call) and isinstance(st.value.func, ast.Attribute) \
                        and st.value.func.attr == "evalfn" and all(isinstance(e, ast.Name) for e in st.targets[0].elts):
                    for i_, e in enumerate(st.targets[0].elts):
                        pos.setdefault(e.id, set()).add(i_)
            decided = True
            for st in ast.walk(f.node):
                if not (isinstance(st, ast.Assign) and len(st.targets) == 1 and st.targets[0] in stores):
                    continue
                key = st.targets[0].slice.value if isinstance(st.targets[0].slice, ast.Constant) else None
                want = {"F": 0, "G": 1, "H": 2}.get(key)
                got = pos.get(st.value.id) if isinstance(st.value, ast.Name) else None
                if want is None or got is None or len(got) != 1:
                    decided = False
                    continue
                if got != {want}:
                    rep.violate(R, f.qualname, "out[%r] receives component %d of evalfn's result (%s), not component %d: pymoo judges and reports the solution on another quantity than "
                                "a fresh evaluation gives" % (key, sorted(got)[0], st.value.id, want), where(f, st), "component %d" % want, st.value.id)
                else:
                    rep.ok(R, "%s#store-%s" % (f.qualname, key), "out[%r] = component %d of self.evalfn(...)" % (key, want))
            if not decided or not pos:
                rep.unrec(R, f.qualname, "results are handed over by stores the rule cannot trace to the components of evalfn's result")
            if not ups:
                continue
        elif not ups:
            rep.unrec(R, f.qualname, "results are not handed over by out.update({key: val for key, val in zip([...], ...)}) (another formulation)")
            continue
        for c in ups:
            dc = c.args[0]
            g = dc.generators[0]
            it = g.iter
            if not (len(dc.generators) == 1 and isinstance(it, ast.Call) and dump(it.func) == "zip" and isinstance(g.target, ast.Tuple) and len(g.target.elts) == len(it.args)
                    and all(isinstance(e, ast.Name) for e in g.target.elts) and isinstance(dc.key, ast.Name)):
                rep.unrec(R, f.qualname, "hand-over comprehension not modelled: %s" % dump(dc)[:60])
                continue
            tnames = [e.id for e in g.target.elts]
            kpos = tnames.index(dc.key.id) if dc.key.id in tnames else None
            keys = it.args[kpos] if kpos is not None else None
            if not (isinstance(keys, (ast.List, ast.Tuple)) and [getattr(e, "value", None) for e in keys.elts] == ["F", "G", "H"]):
                got = [getattr(e, "value", "?") for e in keys.elts] if isinstance(keys, (ast.List, ast.Tuple)) else dump(it)[:40]
                if isinstance(keys, (ast.List, ast.Tuple)) and sorted(got) == ["F", "G", "H"]:
                    rep.violate(R, f.qualname, "evalfn's (objectives, inequality violations, equality violations) are reported under the keys %s" % got, where(f, c), "['F', 'G', 'H']", str(got))
                else:
                    rep.unrec(R, f.qualname, "keys of the hand-over are %s" % (got,))
                continue
            if isinstance(dc.value, ast.Name) and dc.value.id in tnames and dc.value.id != dc.key.id and len(tnames) == 2:
                rep.ok(R, f.qualname + "#%d" % c.lineno, "out[F,G,H] = the components of the evaluation, untouched")
            elif any(isinstance(n, ast.Name) and n.id in tnames and n.id != dc.key.id for n in ast.walk(dc.value)) and isinstance(dc.value, (ast.BinOp, ast.UnaryOp, ast.Call)):
                rep.violate(R, f.qualname, "the value reported to the optimiser is %s, not the component evalfn returned: evalfn already applies the weights, so the solution's "
                            "reported objectives / violations differ from a fresh evaluation" % dump(dc.value)[:50], where(f, c), "the evaluation's own component", dump(dc.value)[:50])
            else:
                rep.unrec(R, f.qualname, "reported value %s not modelled" % dump(dc.value)[:50])


def check_bound_sync(prog, rep):
    """R10-bounds: pymoo samples, repairs and clips with the problem's `xl` / `xu`; the library's own `decn_space_lower` / `decn_space_upper` are what the
    solution is judged against.  Every setter of a bound in pybrops.opt.prob stores the value it is given in both places (sibling agreement: Problem, Real, Integer
    and Binary problems all do), so a bound changed after construction is the bound the optimiser respects."""
    n = 0
    for m in sorted(prog.modules.values(), key=lambda m_: m_.name):
        if not m.name.startswith("pybrops.opt.prob."):
            continue
        for c in m.classes.values():
            for pname, twin in (("decn_space_lower", "_xl"), ("decn_space_upper", "_xu")):
                P = c.own_props.get(pname)
                f = P.setter if P is not None else None
                if f is None:
                    continue
                rep.saw(f)
                n += 1
                construct = "%s.%s.setter" % (c.qualname, pname)
                st_own = [x for x in walk_no_nested(f.node) if isinstance(x, ast.Assign) and any(dump(t) == "self._" + pname for t in x.targets)]
                st_twin = [x for x in walk_no_nested(f.node) if isinstance(x, ast.Assign) and any(dump(t) in ("self." + twin, "self." + twin[1:]) for t in x.targets)]
                if len(st_own) != 1:
                    rep.unrec("R10-bounds", construct, "expected one store of self._%s" % pname)
                    continue
                if not st_twin:
                    rep.violate("R10-bounds", construct, "the setter stores self._%s but not pymoo's self.%s: a bound assigned after construction is not the bound the optimiser samples "
                                "and repairs with (decisions outside the declared bounds)" % (pname, twin), where(f, st_own[0]), "self.%s = value" % twin, "absent")
                    continue
                if len(st_twin) != 1 or dump(st_twin[0].value) != dump(st_own[0].value):
                    rep.violate("R10-bounds", construct, "self.%s receives %s while self._%s receives %s: the optimiser and the problem disagree on the bound"
                                % (twin, dump(st_twin[0].value)[:40], pname, dump(st_own[0].value)[:40]), where(f, st_twin[0]), dump(st_own[0].value)[:40], dump(st_twin[0].value)[:40])
                    continue
                rep.ok("R10-bounds", construct, "bound stored for the library (self._%s) and for pymoo (self.%s) alike" % (pname, twin))
    return n


def run(prog, rep, tier):
    rep.explanation = ("Keyword/source agreement for every Solution assembly in pybrops.opt.algo, a path rule over the exchange scan of the two hill-climbers "
                       "(swap/evaluate/accept/undo pairing, truthful incumbent values, termination), creation-without-replacement and mask rules for the subset "
                       "operators, alias (view vs copy) classification of arrays edited in place, and the sorting optimiser's pipeline.")
    rep.not_decided = ["feasibility / non-domination / optimality of what pymoo returns (runtime search)", "brute-force optimality for separable problems (follows from R6 only for separable objectives)"]
    for r, n in (("R1-assembly", 15), ("R2-truthful", 2), ("R3-swaps", 2), ("R4-subsets", 6), ("R5-problem", 4), ("R6-sorting", 2), ("R7-integer", 2), ("R8-bridge", 8), ("R10-bounds", 8)):
        rep.floor(r, n)
    check_assembly(prog, rep)
    for mod, cname in HILL:
        check_hillclimber(prog, rep, mod, cname)
    check_sorting(prog, rep)
    check_operators(prog, rep)
    check_bridge(prog, rep)
    check_bound_sync(prog, rep)
    wire(prog, rep, "C06", 4, 260, 20)
