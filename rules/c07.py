"""
C07  Selection protocols turn criteria into valid, correct cross configurations   (wiring only)

  R1-select    select(): single-objective -> xconfig_decn = sosoln.soln_decn[0]; multi-objective -> ix = argmax(ndset_wt * ndset_trans(front, **kwargs)) and
               xconfig_decn = mosoln.soln_decn[ix] of the SAME solution object; design parameters and pgmat forwarded by name; sosolve/mosolve build the
               problem from the same-named arguments, run the matching optimiser and copy every solution field by name
               "for multi-objective protocols the configuration is derived from the non-dominated solution that maximises the declared preference
                transformation"; "refers only to individuals ... contained in the chosen solution"
  R2-pipeline  sample_xconfig = draw (tiled_choice without replacement over the decision / repeat(arange(n), counts); stochastic universal sampling over
               arange(n) with the weights) with size (ncross, nparent) -> outcross_shuffle -> axis_shuffle(axis 0) -> stored; mate encodings: draw ncross
               indices, shuffle, look them up in the cross map; every step uses self.rng
               "has the requested number of crosses and parents per cross ... uses them with the multiplicities the solution dictates ... left in an
                arrangement where no single exchange of two entries would reduce the number of self-pairings"
  R3-xmap      triuix starts each level at l[-1], triudix at l[-1]+1, both yield k-tuples; xmapix picks triudix iff unique_parents
  (R1-outcross of C17: the exchange search itself)
"""
import ast

from sa.ctorflow import wire

import re

from sa.astutil import canon_tree, alpha_normalise, inline_temporaries, dump, where, kwargs_of, walk_no_nested, field_of
from sa.model import body_nodoc
from rules import c17

SEL = "pybrops.breed.prot.sel."
PROTOS = ["SubsetSelectionProtocol", "RealSelectionProtocol", "IntegerSelectionProtocol", "BinarySelectionProtocol",
          "SubsetMateSelectionProtocol", "RealMateSelectionProtocol", "IntegerMateSelectionProtocol", "BinaryMateSelectionProtocol"]
CFGS = ["SubsetSelectionConfiguration", "RealSelectionConfiguration", "IntegerSelectionConfiguration", "BinarySelectionConfiguration",
        "SubsetMateSelectionConfiguration", "RealMateSelectionConfiguration", "IntegerMateSelectionConfiguration", "BinaryMateSelectionConfiguration"]
DESIGN = ["ncross", "nparent", "nmating", "nprogeny"]


def _branch(f, pred):
    """body of the `if` branch of select() whose test satisfies pred(test text)"""
    for st in body_nodoc(f.node):
        node = st if isinstance(st, ast.If) else None
        while node is not None:
            if pred(dump(node.test)):
                return node
            node = node.orelse[0] if len(node.orelse) == 1 and isinstance(node.orelse[0], ast.If) else None
    return None


def _assigns(stmts):
    out = {}
    for st in stmts:
        for n in ast.walk(st):
            if isinstance(n, ast.Assign) and len(n.targets) == 1 and isinstance(n.targets[0], ast.Name):
                out[n.targets[0].id] = n.value
    return out


def check_select(prog, rep):
    for pname in PROTOS:
        c = prog.get_class(pname, SEL + pname)
        f = c.methods.get("select")
        if f is None:
            rep.unrec("R1-select", c.qualname, "select vanished")
            continue
        rep.saw(f)
        construct = f.qualname
        so = _branch(f, lambda t: t == "self.nobj == 1")
        mo = _branch(f, lambda t: t == "self.nobj > 1")
        if so is None or mo is None:
            rep.unrec("R1-select", construct, "single/multi-objective branches not found")
            continue
        good = True
        params = [p for p in f.params() if p not in ("self",)]
        for tag, br, solver, solname in (("single", so, "sosolve", None), ("multi", mo, "mosolve", None)):
            a = _assigns(br.body)
            sols = [k for k, v in a.items() if isinstance(v, ast.Call) and dump(v.func) == "self." + solver]
            if len(sols) != 1:
                rep.violate("R1-select", construct, "the %s-objective branch does not solve with self.%s" % (tag, solver), where(f, br), "self.%s(...)" % solver, "other")
                good = False
                continue
            S = sols[0]
            kws, stars = kwargs_of(a[S])
            ba, _callee = prog.bound_args(f, a[S])
            if ba is not None:
                kws = ba          # positional and keyword arguments alike, keyed by the callee's parameter names
            for k, v in kws.items():
                if isinstance(v, ast.Name) and v.id in params and v.id != k and k in params:
                    rep.violate("R1-select", construct, "%s receives %s=%s" % (solver, k, v.id), where(f, a[S]), "%s=%s" % (k, k), v.id)
                    good = False
            callee = prog.lookup_method(c, solver)
            if callee is not None:
                for p in callee.params():
                    if p in params and p not in kws:
                        rep.violate("R1-select", construct, "%s is not handed on to %s" % (p, solver), where(f, a[S]), "%s=%s" % (p, p), "absent")
                        good = False
            ctor = [n for st in br.body for n in ast.walk(st) if isinstance(n, ast.Call) and isinstance(n.func, ast.Name) and n.func.id.endswith("SelectionConfiguration")]
            if len(ctor) != 1:
                rep.unrec("R1-select", construct, "%s-objective branch: configuration construction not found" % tag)
                good = False
                continue
            ck, _ = kwargs_of(ctor[0])
            for d in DESIGN:
                if d in ck and dump(ck[d]) != "self." + d:
                    fld = field_of(ck[d])
                    if fld in DESIGN or fld is not None:
                        rep.violate("R1-select", construct, "configuration receives %s=%s" % (d, dump(ck[d])), where(f, ctor[0]), "self." + d, dump(ck[d]))
                        good = False
                    else:
                        rep.unrec("R1-select", construct, "%s=%s not modelled" % (d, dump(ck[d])[:30]))
                        good = False
            if "pgmat" in ck and dump(ck["pgmat"]) != "pgmat":
                rep.violate("R1-select", construct, "configuration refers to %s, not to the population passed to select()" % dump(ck["pgmat"])[:30], where(f, ctor[0]), "pgmat=pgmat", dump(ck["pgmat"])[:30])
                good = False
            xd = ck.get("xconfig_decn")
            if xd is None:
                rep.violate("R1-select", construct, "configuration is built without the chosen decision", where(f, ctor[0]))
                good = False
                continue
            if tag == "single":
                if dump(xd) != "%s.soln_decn[0]" % S:
                    rep.violate("R1-select", construct, "single-objective configuration uses %s, not the solver's decision %s.soln_decn[0]" % (dump(xd)[:40], S), where(f, ctor[0]),
                                "%s.soln_decn[0]" % S, dump(xd)[:40])
                    good = False
            else:
                sc = [k for k, v in a.items() if "ndset_trans(" in dump(v)]
                ixn = [k for k, v in a.items() if isinstance(v, ast.Call) and isinstance(v.func, ast.Attribute) and v.func.attr in ("argmax", "argmin")]
                if len(sc) != 1 or len(ixn) != 1:
                    rep.unrec("R1-select", construct, "preference score / argmax not found")
                    good = False
                    continue
                want = ["self.ndset_wt * self.ndset_trans(%s.soln_obj, **self.ndset_trans_kwargs)" % S, "self.ndset_trans(%s.soln_obj, **self.ndset_trans_kwargs) * self.ndset_wt" % S]
                got = dump(a[sc[0]])
                if got not in want:
                    if "self.ndset_wt" not in got:
                        rep.violate("R1-select", construct, "the preference score ignores the declared weight ndset_wt (%s): with a negative weight the farthest instead of the closest "
                                    "front point is chosen" % got[:70], where(f, a[sc[0]]), want[0], got[:70])
                    elif "%s.soln_obj" % S not in got:
                        rep.violate("R1-select", construct, "the preference transformation is not applied to the front's objective values (%s)" % got[:70], where(f, a[sc[0]]), want[0], got[:70])
                    elif "**self.ndset_trans_kwargs" not in got:
                        rep.violate("R1-select", construct, "the declared transformation arguments ndset_trans_kwargs are not passed", where(f, a[sc[0]]), want[0], got[:70])
                    else:
                        rep.unrec("R1-select", construct, "preference score %s not modelled" % got[:70])
                    good = False
                ixv = a[ixn[0]]
                if dump(ixv) != "%s.argmax()" % sc[0]:
                    if ixv.func.attr == "argmin":
                        rep.violate("R1-select", construct, "the front point MINIMISING the preference score is chosen", where(f, ixv), "%s.argmax()" % sc[0], dump(ixv))
                    else:
                        rep.violate("R1-select", construct, "index is %s, not the argmax of the preference score" % dump(ixv)[:40], where(f, ixv), "%s.argmax()" % sc[0], dump(ixv)[:40])
                    good = False
                if dump(xd) != "%s.soln_decn[%s]" % (S, ixn[0]):
                    rep.violate("R1-select", construct, "multi-objective configuration uses %s, not the decision of the chosen front point %s.soln_decn[%s]" % (dump(xd)[:40], S, ixn[0]),
                                where(f, ctor[0]), "%s.soln_decn[%s]" % (S, ixn[0]), dump(xd)[:40])
                    good = False
        if good:
            rep.ok("R1-select", construct, "sosoln.soln_decn[0] / mosoln.soln_decn[argmax(ndset_wt*ndset_trans(front))]; design parameters and pgmat by name")
        # sosolve / mosolve
        for solver, algo in (("sosolve", "soalgo"), ("mosolve", "moalgo")):
            g = c.methods.get(solver)
            if g is None:
                continue
            rep.saw(g)
            a = _assigns(body_nodoc(g.node))
            goodg = True
            pv = [k for k, v in a.items() if isinstance(v, ast.Call) and dump(v.func) == "self.problem"]
            sv = [k for k, v in a.items() if isinstance(v, ast.Call) and dump(v.func).endswith(".minimize")]
            if len(pv) != 1 or len(sv) != 1:
                rep.unrec("R1-select", g.qualname, "problem construction / minimize call not found")
                continue
            kws, _ = kwargs_of(a[pv[0]])
            gp = g.params()
            for k, v in kws.items():
                if isinstance(v, ast.Name) and v.id in gp and v.id != k and k in gp:
                    rep.violate("R1-select", g.qualname, "problem() receives %s=%s" % (k, v.id), where(g, a[pv[0]]), "%s=%s" % (k, k), v.id)
                    goodg = False
            mk, _ = kwargs_of(a[sv[0]])
            if dump(a[sv[0]].func) != "self.%s.minimize" % algo:
                rep.violate("R1-select", g.qualname, "%s optimises with %s, not with self.%s" % (solver, dump(a[sv[0]].func), algo), where(g, a[sv[0]]), "self.%s.minimize" % algo, dump(a[sv[0]].func))
                goodg = False
            if dump(mk.get("prob")) != pv[0] if "prob" in mk else True:
                rep.violate("R1-select", g.qualname, "minimize() is not given the problem just built", where(g, a[sv[0]]), "prob=%s" % pv[0], dump(mk.get("prob")) if "prob" in mk else "absent")
                goodg = False
            sol = [n for n in walk_no_nested(g.node) if isinstance(n, ast.Call) and isinstance(n.func, ast.Name) and n.func.id.endswith("Solution")]
            if len(sol) == 1:
                sk, _ = kwargs_of(sol[0])
                for k, v in sk.items():
                    if isinstance(v, ast.Attribute) and dump(v.value) == sv[0] and v.attr != k:
                        rep.violate("R1-select", g.qualname, "solution field %s is copied from %s.%s" % (k, sv[0], v.attr), where(g, sol[0]), "%s.%s" % (sv[0], k), dump(v))
                        goodg = False
            else:
                rep.unrec("R1-select", g.qualname, "solution copy not found")
                goodg = False
            if goodg:
                rep.ok("R1-select", g.qualname, "problem(same-named args) -> self.%s.minimize(prob) -> solution fields copied by name" % algo)


def _canon_calls(prog, f, nodes):
    """rewrite every call of a resolvable library function into keyword form (parameter order of the callee), so f(a, 0) == f(a, axis=0)"""
    import copy
    from sa.model import FuncInfo
    nodes = [copy.deepcopy(n) for n in nodes]
    for n in nodes:
        for c in ast.walk(n):
            if isinstance(c, ast.Call) and isinstance(c.func, ast.Name):
                t = prog.resolve_name(f.module, c.func.id)
                if isinstance(t, FuncInfo) and not any(isinstance(a, ast.Starred) for a in c.args):
                    pn = t.params()
                    kw = [ast.keyword(arg=pn[i], value=a) for i, a in enumerate(c.args) if i < len(pn)]
                    if len(c.args) <= len(pn):
                        allk = kw + list(c.keywords)
                        allk.sort(key=lambda k: pn.index(k.arg) if k.arg in pn else 99)
                        c.args, c.keywords = [], allk
    return nodes


def check_pipeline(prog, rep):
    for cname in CFGS:
        c = prog.get_class(cname, SEL + "cfg." + cname)
        f = c.methods.get("sample_xconfig")
        if f is None:
            rep.unrec("R2-pipeline", c.qualname, "sample_xconfig vanished")
            continue
        rep.saw(f)
        construct = f.qualname
        mate = "Mate" in cname
        kind = [k for k in ("Subset", "Real", "Integer", "Binary") if cname.startswith(k)][0]
        stmts = [s for s in body_nodoc(f.node) if not isinstance(s, (ast.If, ast.Return))]
        params = tuple(f.params())
        txt = alpha_normalise(_canon_calls(prog, f, inline_temporaries(stmts, keep=params)), keep=params)
        size = "(self.ncross,)" if mate else "(self.ncross, self.nparent)"
        if kind == "Subset":
            draw = ["out = tiled_choice(self.xconfig_decn, size=%s, replace=False, rng=self.rng)" % size]
        elif kind == "Real":
            draw = ["out = stochastic_universal_sampling(numpy.arange(len(self.xconfig_decn)), self.xconfig_decn, size=%s, rng=self.rng)" % size]
        else:
            draw = ["options = numpy.repeat(numpy.arange(len(self.xconfig_decn)), self.xconfig_decn)", "out = tiled_choice(options, size=%s, replace=False, rng=self.rng)" % size]
        tail = (["self.rng.shuffle(out)", "out = self.xconfig_xmap[out, :]", "self.xconfig = out"] if mate
                else ["outcross_shuffle(out, rng=self.rng)", "axis_shuffle(out, 0, rng=self.rng)", "self.xconfig = out"])
        want = alpha_normalise(_canon_calls(prog, f, inline_temporaries(canon_tree(ast.parse("\n".join(draw + tail))).body, keep=params)), keep=params)
        if txt == want:
            rep.ok("R2-pipeline", construct, " ; ".join(want), sample={"configuration": cname, "pipeline": want})
            continue
        # classify the first difference
        reported = False
        for i, w in enumerate(want):
            g = txt[i] if i < len(txt) else "<missing>"
            if g == w:
                continue
            step = w.split("(")[0].split("= ")[-1]
            if w in txt:
                rep.violate("R2-pipeline", construct, "sampling steps are out of order: `%s` comes at position %d instead of %d" % (w[:50], txt.index(w) + 1, i + 1), where(f),
                            " ; ".join(want)[:160], " ; ".join(txt)[:160])
            elif any(t.split("(")[0] == w.split("(")[0] for t in txt):
                other = [t for t in txt if t.split("(")[0] == w.split("(")[0]][0]
                rep.violate("R2-pipeline", construct, "step `%s` is `%s`" % (step, other[:110]), where(f), w[:110], other[:110])
            elif step in ("outcross_shuffle", "axis_shuffle", "tiled_choice", "stochastic_universal_sampling") or "shuffle" in step:
                rep.violate("R2-pipeline", construct, "step `%s` is missing from the sampling pipeline" % w[:70], where(f), w[:110], "absent")
            else:
                rep.unrec("R2-pipeline", construct, "pipeline statement `%s` is written differently: %s" % (w[:60], g[:60]))
            reported = True
            break
        if not reported and len(txt) > len(want):
            rep.unrec("R2-pipeline", construct, "extra statements in the pipeline: %s" % txt[len(want):][:2])
        # constructor samples once
        ini = c.methods.get("__init__")
        if ini is not None and "self.sample_xconfig(" not in dump(ini.node):
            rep.info("R2-pipeline", ini.qualname, "constructor does not sample the configuration")


def check_xmap(prog, rep):
    m = prog.module("pybrops.core.util.array")
    for name, start in (("triuix", "l[-1] if len(l) else 0"), ("triudix", "l[-1] + 1 if len(l) else 0")):
        f = m.functions.get(name)
        if f is None:
            rep.unrec("R3-xmap", m.name, "%s vanished" % name)
            continue
        rep.saw(f)
        # names do not matter: the nested generator is read with its own name and parameters put to (recurse; l, n, k) and the outer parameters to (n, k)
        import copy as _copy
        fnode = _copy.deepcopy(f.node)
        inner_ = [x for x in fnode.body if isinstance(x, ast.FunctionDef)]
        if len(inner_) == 1 and len(inner_[0].args.args) == 3 and len(fnode.args.args) == 2:
            ren = {inner_[0].name: "recurse"}
            ren.update({a_.arg: nm_ for a_, nm_ in zip(inner_[0].args.args, ("l", "n", "k"))})
            outer_ren = {a_.arg: nm_ for a_, nm_ in zip(fnode.args.args, ("n", "k"))}
            for x in ast.walk(inner_[0]):
                if isinstance(x, ast.Name) and x.id in ren:
                    x.id = ren[x.id]
                elif isinstance(x, ast.arg) and x.arg in ren:
                    x.arg = ren[x.arg]
            inner_[0].name = "recurse"
            for st_ in fnode.body:
                if st_ is inner_[0]:
                    continue
                for x in ast.walk(st_):
                    if isinstance(x, ast.Name) and x.id in outer_ren:
                        x.id = outer_ren[x.id]
                    elif isinstance(x, ast.Name) and x.id in ren and ren[x.id] == "recurse":
                        x.id = "recurse"
        txt = dump(fnode)
        sts = [dump(n.value) for n in ast.walk(fnode) if isinstance(n, ast.Assign) and isinstance(n.value, ast.IfExp) and "len(l)" in dump(n.value.test)]
        if not sts:
            rep.unrec("R3-xmap", f.qualname, "level start `... if len(l) else 0` not found (another formulation of the index generator)")
        elif sts != [start]:
            rep.violate("R3-xmap", f.qualname, "each level starts at %s, expected %s (%s parents)" % (sts, start, "repeated" if name == "triuix" else "distinct"), where(f), start, str(sts))
        elif ("len(l) == k - 1" in txt or "k - 1 == len(l)" in txt) and len(re.findall(r"for \w+ in range\(\w+, n\)", txt)) == 2 and "yield list(l)" in txt and "yield from recurse(l, n, k)" in txt and "yield from recurse([], n, k)" in txt:
            rep.ok("R3-xmap", f.qualname, "k nested levels over range(st, n), level start %s" % start)
        else:
            rep.unrec("R3-xmap", f.qualname, "generator body not in the modelled form")
    f = m.functions.get("xmapix")
    if f is not None:
        rep.saw(f)
        body = body_nodoc(f.node)
        ok = (len(body) == 1 and isinstance(body[0], ast.If) and dump(body[0].test) == "unique_parents" and "triudix(ntaxa, nparent)" in dump(body[0].body[0])
              and "triuix(ntaxa, nparent)" in dump(body[0].orelse[0]))
        if ok:
            rep.ok("R3-xmap", f.qualname, "triudix iff unique_parents else triuix, both over (ntaxa, nparent)")
        elif len(body) == 1 and isinstance(body[0], ast.If) and "triuix" in dump(body[0].body[0]) and "triudix" in dump(body[0].orelse[0]):
            rep.violate("R3-xmap", f.qualname, "unique_parents selects the generator WITH repeated parents", where(f), "triudix iff unique_parents", "swapped")
        else:
            rep.unrec("R3-xmap", f.qualname, "not in the modelled form")


def check_ctor_forwarding(prog, rep):
    """R4-ctor: a selection protocol's constructor hands each of its parameters to the parent constructor under its own name: super().__init__(k = v)
    with v another parameter while k itself is a parameter is a crossed hand-over (the declared preference weights / transformations are the ones used)"""
    R = "R4-ctor"
    for m in prog.modules.values():
        if not m.name.startswith(SEL) or m.name.startswith(SEL + "prob") or m.name.startswith(SEL + "cfg"):
            continue
        for K in m.classes.values():
            f = K.methods.get("__init__")
            if f is None:
                continue
            params = [p for p in f.params() if p != "self"]
            sup = [c for c in walk_no_nested(f.node) if isinstance(c, ast.Call) and isinstance(c.func, ast.Attribute) and c.func.attr == "__init__"
                   and ((isinstance(c.func.value, ast.Call) and dump(c.func.value.func) == "super") or isinstance(c.func.value, ast.Name))]
            # the same for direct stores: self.k = v with k and v both parameters
            for st in walk_no_nested(f.node):
                if isinstance(st, ast.Assign) and len(st.targets) == 1 and isinstance(st.value, ast.Name) and st.value.id in params:
                    k = field_of(st.targets[0])
                    if k in params and k != st.value.id:
                        rep.saw(f)
                        rep.violate(R, f.qualname, "self.%s is set from the parameter %s although the constructor has its own parameter %s" % (k, st.value.id, k), where(f, st),
                                    "self.%s = %s" % (k, k), dump(st))
            if not sup:
                continue
            rep.saw(f)
            for c in sup:
                kws, stars = kwargs_of(c)
                good = True
                for k, v in kws.items():
                    if isinstance(v, ast.Name) and v.id in params and k in params and v.id != k:
                        rep.violate(R, f.qualname, "the parent constructor receives %s = %s although the constructor has its own parameter %s: the caller's %s is dropped and "
                                    "%s takes its place" % (k, v.id, k, k, v.id), where(f, c), "%s = %s" % (k, k), "%s = %s" % (k, v.id))
                        good = False
                if good:
                    rep.ok(R, f.qualname, "%d keywords handed to the parent constructor under their own names" % len(kws))


def check_cross_space(prog, rep):
    """R5-space: a protocol whose decisions are crosses offers the optimiser one decision per row of the cross map the problem itself builds: ndecn = len(xmap) with
    xmap = <Problem>._calc_xmap(ntaxa, nparent, unique_parents).  A closed form is accepted only if it is the count of that generator: C(n, k) index tuples without
    repetition (triudix), C(n + k - 1, k) with repetition (triuix)."""
    from sa.vn import VN, VNUnknown
    R = "R5-space"
    for m in prog.modules.values():
        if not m.name.startswith(SEL) or m.name.startswith(SEL + "prob") or m.name.startswith(SEL + "cfg"):
            continue
        for K in m.classes.values():
            f = K.methods.get("problem")
            if f is None:
                continue
            defs = {}
            for st in walk_no_nested(f.node):
                if isinstance(st, ast.Assign) and len(st.targets) == 1 and isinstance(st.targets[0], ast.Name):
                    defs.setdefault(st.targets[0].id, []).append(st.value)
            nd = [k.value for c in walk_no_nested(f.node) if isinstance(c, ast.Call) for k in c.keywords if k.arg == "ndecn"]
            uses_xmap = any(isinstance(c, ast.Call) and isinstance(c.func, ast.Attribute) and c.func.attr == "_calc_xmap" for c in walk_no_nested(f.node))
            combs = [c for c in walk_no_nested(f.node) if isinstance(c, ast.Call) and (prog.dotted(f.module, c.func) or dump(c.func)) in ("math.comb", "comb", "scipy.special.comb")]
            if not nd or not (uses_xmap or combs):
                continue
            rep.saw(f)
            v = nd[0]
            if isinstance(v, ast.Name) and len(defs.get(v.id, [])) == 1:
                v = defs[v.id][0]
            if dump(v) in ("self.ncross", "self._ncross"):
                # subset encoding: the decisions are ncross picks out of the candidate set, and the candidate set is one entry per row of the cross map
                ds = [k.value for c in walk_no_nested(f.node) if isinstance(c, ast.Call) for k in c.keywords if k.arg == "decn_space"]
                v = ds[0] if ds else v
                if isinstance(v, ast.Name) and len(defs.get(v.id, [])) == 1:
                    v = defs[v.id][0]
                if isinstance(v, ast.Call) and (prog.dotted(f.module, v.func) or "") == "numpy.arange" and len(v.args) == 1:
                    v = v.args[0]
                    if isinstance(v, ast.Name) and len(defs.get(v.id, [])) == 1:
                        v = defs[v.id][0]
            if isinstance(v, ast.Call) and dump(v.func) == "len" and len(v.args) == 1 and isinstance(v.args[0], ast.Name):
                xd = defs.get(v.args[0].id, [None])[0]
                if isinstance(xd, ast.Call) and isinstance(xd.func, ast.Attribute) and xd.func.attr == "_calc_xmap":
                    # the map that sizes the decision space must be the map the problem builds for itself: same (ntaxa, nparent, unique_parents) as the factory receives
                    from sa.ctorflow import resolve_call
                    callee, skip = resolve_call(prog, f.module, K, xd)
                    fac = [c for c in walk_no_nested(f.node) if isinstance(c, ast.Call) and any(k.arg == "ndecn" for k in c.keywords)]
                    fk = {k.arg: k.value for k in fac[0].keywords if k.arg} if fac else {}
                    if callee is None or any(isinstance(a, ast.Starred) for a in xd.args):
                        rep.unrec(R, f.qualname, "_calc_xmap call not resolved")
                        continue
                    pn = [a.arg for a in callee.node.args.args][skip:]
                    bound = {pn[i]: a for i, a in enumerate(xd.args) if i < len(pn)}
                    bound.update({k.arg: k.value for k in xd.keywords if k.arg})
                    dflt = dict(zip(reversed(pn), reversed(callee.node.args.defaults)))
                    bad = False
                    for pname in ("nparent", "unique_parents"):
                        if pname not in pn or pname not in fk:
                            continue
                        got = bound.get(pname, dflt.get(pname))
                        if got is None or dump(got) != dump(fk[pname]):
                            rep.violate(R, f.qualname, "the cross map that sizes the decision space is built with %s=%s%s but the problem is built with %s=%s: the optimiser is offered "
                                        "another number of crosses than the problem's own map has" % (pname, dump(got) if got is not None else "?", "" if pname in bound else " (the default)",
                                                                                                     pname, dump(fk[pname])), where(f, xd), "%s=%s" % (pname, dump(fk[pname])),
                                        dump(got) if got is not None else "absent")
                            bad = True
                    if "ntaxa" in bound and not dump(bound["ntaxa"]).endswith(".ntaxa"):
                        rep.unrec(R, f.qualname, "number of taxa of the cross map is %s" % dump(bound["ntaxa"]))
                        bad = True
                    if not bad:
                        rep.ok(R, f.qualname, "ndecn = len(%s) with %s = %s on the problem's own (ntaxa, nparent, unique_parents)" % (v.args[0].id, v.args[0].id, dump(xd.func)))
                    continue
            if combs and len(combs) == 1 and any(x is combs[0] for x in ast.walk(v)) or (isinstance(v, ast.Call) and v in combs):
                c = combs[0]
                if len(c.args) != 2:
                    rep.unrec(R, f.qualname, "count %s not modelled" % dump(c)[:50])
                    continue
                verdicts = []
                try:
                    for uniq, want in ((True, "N"), (False, "N + K - 1")):
                        env = {}
                        vn = VN(prog, f, flags={})
                        # evaluate the first argument with the flag unique_parents decided
                        import copy as _copy

                        class Dec(ast.NodeTransformer):
                            def visit_IfExp(self_, n):
                                self_.generic_visit(n)
                                t = dump(n.test)
                                if t in ("self.unique_parents", "unique_parents", "self._unique_parents"):
                                    return n.body if uniq else n.orelse
                                if t in ("not self.unique_parents", "not unique_parents"):
                                    return n.orelse if uniq else n.body
                                return n
                        a0 = c.args[0]
                        if isinstance(a0, ast.Name) and len(defs.get(a0.id, [])) == 1:
                            a0 = defs[a0.id][0]
                        stmts = []
                        for nm_, vs_ in defs.items():
                            if len(vs_) == 1 and isinstance(vs_[0], (ast.IfExp, ast.BinOp, ast.Constant, ast.Attribute, ast.Name)):
                                stmts.append(ast.Assign(targets=[ast.Name(id=nm_, ctx=ast.Store())], value=Dec().visit(_copy.deepcopy(vs_[0]))))
                        vn2 = VN(prog, f)
                        for st_ in stmts:
                            try:
                                vn2.stmt(ast.fix_missing_locations(st_))
                            except VNUnknown:
                                pass
                        got = vn2.expr(Dec().visit(_copy.deepcopy(a0)))
                        kk = vn2.expr(c.args[1])
                        nn = None
                        # N is whatever the first argument is for unique parents
                        verdicts.append((uniq, got, kk))
                    (u1, g1, k1), (u2, g2, k2) = verdicts
                    # with repetition the generator yields C(N + K - 1, K): the first argument must grow by K - 1 relative to the unique case
                    from sa.vn import Poly
                    if g2 == g1 + k1 - Poly.const(1):
                        rep.ok(R, f.qualname, "ndecn = C(n, k) for unique parents and C(n + k - 1, k) otherwise: the counts of triudix / triuix")
                    else:
                        rep.violate(R, f.qualname, "the number of decisions is %s: for crosses with repeated parents the cross map has C(n + k - 1, k) rows, which this equals only "
                                    "for k = 2 - with three or more parents per cross the last rows of the cross map are never offered to the optimiser" % dump(c)[:60],
                                    where(f, c), "len(xmap) of the problem's own cross map", dump(c)[:60])
                except VNUnknown as e:
                    rep.unrec(R, f.qualname, "count %s not evaluated: %s" % (dump(c)[:40], e))
                continue
            rep.unrec(R, f.qualname, "ndecn = %s is not the length of the problem's cross map" % dump(v)[:50])


def run(prog, rep, tier):
    rep.explanation = ("Wiring rules: the decision that reaches the cross configuration is the solver's own (argmax of the declared weighted preference transformation for "
                       "fronts), all design parameters and the population are forwarded by name, the sampling pipeline of the eight configuration classes is the required "
                       "sequence with self.rng at every step, and the cross-map index generators start each level correctly. The exchange search is checked by C17-R1.")
    rep.not_decided = ["that an exact optimiser picks the best candidates; permutation equivariance; balance within one share (runtime / C17's undecided clauses)"]
    rep.only_rules = {"R1-select", "R2-pipeline", "R3-xmap", "R1-outcross", "R4-ctor", "R2-tiles", "R5-space"}
    for r, n in (("R1-select", 20), ("R2-pipeline", 8), ("R3-xmap", 3), ("R1-outcross", 2), ("R4-ctor", 50), ("R5-space", 10)):
        rep.floor(r, n)
    from sa.report import second_reading
    fs = [f_ for m_ in prog.modules.values() if any(m_.name.startswith(p_) for p_ in ('pybrops.breed.prot.sel',)) for f_ in list(m_.functions.values()) + [g_ for c_ in m_.classes.values() for g_ in c_.methods.values()]]
    second_reading(rep, fs, lambda r_: check_select(prog, r_))
    second_reading(rep, fs, lambda r_: check_pipeline(prog, r_))
    check_xmap(prog, rep)
    check_ctor_forwarding(prog, rep)
    check_cross_space(prog, rep)
    fs17 = [f_ for m_ in prog.modules.values() if any(m_.name.startswith(p_) for p_ in ('pybrops.core.random.sampling',)) for f_ in list(m_.functions.values()) + [g_ for c_ in m_.classes.values() for g_ in c_.methods.values()]]
    second_reading(rep, fs17, lambda r_: c17.check_outcross(prog, r_))
    second_reading(rep, fs17, lambda r_: c17.check_tiled(prog, r_))
    wire(prog, rep, "C07", 55, 310, 480)
