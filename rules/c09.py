"""
C09  Genotype summary statistics are exact and mutually consistent   (R5/R6 are shared with C10, C04, C13)

  R1-definitions  each statistic normalises (algebraic normal form) to its textbook definition (table B.3), for the unphased and the phased
                  class separately -- which also gives "a phased matrix and its unphased projection give identical answers"
  R3-classes      gtcount counts the classes i = 0..ploidy: ploidy+1 rows, row i = (dosage == i).sum(taxa), every row written
                  "genotype-class counts at every locus cover all ploidy+1 classes and sum to the number of taxa"
  R4-complement   "the fixation flag is the exact complement of the polymorphism flag"
  R5-exact-at-one no value computed as (1/D)*N reaches a comparison with 1
                  "exactly 0 or 1 precisely when every chromosome copy in the population carries the same allele"
  R6-accumulator  no reduction over taxa/variants and no matrix product is carried out in the int8 storage dtype
                  "for all matrices of any number of taxa"
"""
import ast

from sa.astutil import dump, where, kwargs_of, walk_no_nested, field_of, is_const, if_chain
from sa.model import AnalysisError, body_nodoc
from sa.vn import VN, Poly, parse_expr, VNUnknown, comparable
from sa.taint import InexactTaint
from sa.dtypes import DtypeScan

GM = ("pybrops.popgen.gmat.DenseGenotypeMatrix", "DenseGenotypeMatrix")
PGM = ("pybrops.popgen.gmat.DensePhasedGenotypeMatrix", "DensePhasedGenotypeMatrix")
STATS = ["tacount", "tafreq", "acount", "afreq", "afixed", "apoly", "maf", "meh", "gtcount", "gtfreq", "mat_asformat"]

# reference definitions (python syntax; `self.x` are the class's own attributes); X = stored matrix
REF = {
    "DenseGenotypeMatrix": {
        "tafreq": ["(1.0 / self.ploidy) * self._mat", "self._mat / self.ploidy"],
        "acount": ["self._mat.sum(self.taxa_axis)"],
        "afreq": ["self._mat.sum(self.taxa_axis) / (self.ploidy * self.ntaxa)"],
        "meh": ["(self.ploidy / self.nvrnt) * numpy.dot(self.afreq(), 1.0 - self.afreq())", "(self.ploidy / self.nvrnt) * (self.afreq() * (1.0 - self.afreq())).sum()"],
        "gtfreq": ["(1.0 / self.ntaxa) * self.gtcount()", "self.gtcount() / self.ntaxa"],
    },
    "DensePhasedGenotypeMatrix": {
        "tafreq": ["(1.0 / self.ploidy) * self._mat.sum(self.phase_axis)", "self._mat.sum(self.phase_axis) / self.ploidy"],
        "acount": ["self._mat.sum((self.phase_axis, self.taxa_axis))"],
        "afreq": ["self._mat.sum((self.phase_axis, self.taxa_axis)) / (self.ploidy * self.ntaxa)"],
        "meh": ["(self.ploidy / self.nvrnt) * (self.afreq() * (1.0 - self.afreq())).sum()", "(self.ploidy / self.nvrnt) * numpy.dot(self.afreq(), 1.0 - self.afreq())"],
        "gtfreq": ["(1.0 / self.ntaxa) * self.gtcount()", "self.gtcount() / self.ntaxa"],
    },
}


def _strip_cast(body):
    """drop the trailing `if dtype is not None: <cast>` block and the final return; return (prefix statements, returned name)"""
    stmts = list(body)
    ret = stmts[-1] if stmts and isinstance(stmts[-1], ast.Return) else None
    if ret is None:
        return None, None
    stmts = stmts[:-1]
    if stmts and isinstance(stmts[-1], ast.If) and "dtype is not None" in dump(stmts[-1].test):
        stmts = stmts[:-1]
    return stmts, ret.value


def _DTYPE_PLUMBING(st_):
    """statements that only choose / apply the accumulator or output dtype"""
    return (isinstance(st_, ast.If) and ("dtype is None" in dump(st_.test) or "dtype is not None" in dump(st_.test))) \
        or (isinstance(st_, ast.Assign) and dump(st_.targets[0]) == "dtype")


def _normalise_stat(prog, f, body=None, inline=0):
    stmts, retv = _strip_cast(body if body is not None else body_nodoc(f.node))
    if stmts is None:
        raise VNUnknown("no return")
    vn = VN(prog, f) if not inline else VN(prog, f, inline=inline, skip=_DTYPE_PLUMBING)
    for st in stmts:
        if isinstance(st, ast.If) and "dtype is None" in dump(st.test):
            continue       # default accumulator selection
        if isinstance(st, ast.Assign) and dump(st.targets[0]) == "dtype":
            continue
        vn.stmt(st)
    return vn.expr(retv), vn


def check_definitions(prog, rep, K):
    for name, refs in REF[K.name].items():
        f = prog.lookup_method(K, name)
        if f is None:
            rep.unrec("R1-definitions", K.qualname, "statistic %s vanished" % name)
            continue
        rep.saw(f)
        construct = "%s.%s" % (K.qualname, name)
        try:
            got, vn = _normalise_stat(prog, f)
        except VNUnknown as e:
            rep.unrec("R1-definitions", construct, "body not straight-line arithmetic: %s" % e)
            continue
        refp = [VN(prog, f).expr(ast.parse(r, mode="eval").body) for r in refs]
        same = any(got == r for r in refp)
        if not same:
            # the statistic may be written through a sibling statistic (afreq = self.acount() / n): read own straight-line methods through, on both sides
            try:
                got2, _ = _normalise_stat(prog, f, inline=1)
                refp2 = [VN(prog, f, inline=1, skip=_DTYPE_PLUMBING).expr(ast.parse(r, mode="eval").body) for r in refs]
                if any(got2 == r for r in refp2):
                    same = True
            except VNUnknown:
                pass
        if same:
            rep.ok("R1-definitions", construct, "%s == %s" % (name, refs[0]), sample={"statistic": construct, "normal_form": got.show()[:200]})
        elif any(comparable(got, r) for r in refp):
            rep.violate("R1-definitions", construct, "%s normalises to %s; its definition is %s" % (name, got.show()[:160], refp[0].show()[:160]), where(f),
                        refs[0], got.show()[:160])
        else:
            rep.unrec("R1-definitions", construct, "%s is written with operators the reference does not use (%s): cannot decide congruence" % (name, got.show()[:120]))
    # maf: out = afreq; mask = out > 0.5; out[mask] = 1 - out[mask]
    f = prog.lookup_method(K, "maf")
    if f is not None:
        rep.saw(f)
        construct = "%s.maf" % K.qualname
        try:
            got, vn = _normalise_stat(prog, f)
            ref = VN(prog, f)
            for st in ast.parse("out = self.afreq(dtype)\nmask = out > 0.5\nout[mask] = 1.0 - out[mask]").body:
                ref.stmt(st)
            if got == ref.env["out"]:
                rep.ok("R1-definitions", construct, "maf = p where p <= 0.5 else 1 - p")
            else:
                rep.violate("R1-definitions", construct, "maf normalises to %s, not to min(p, 1-p) via the > 0.5 flip" % got.show()[:150], where(f), "p[p>0.5] = 1 - p[p>0.5]",
                            got.show()[:150])
        except VNUnknown as e:
            rep.unrec("R1-definitions", construct, str(e))
    # mat_asformat codings
    f = prog.lookup_method(K, "mat_asformat")
    if f is not None:
        rep.saw(f)
        construct = "%s.mat_asformat" % K.qualname
        dosage = ["self.mat", "self.mat.copy()"] if K.name == "DenseGenotypeMatrix" else ["self.mat.sum(0)", "self.mat.sum(self.phase_axis)"]
        fbody = body_nodoc(f.node)
        first = [k for k, s_ in enumerate(fbody) if isinstance(s_, ast.If)]
        seen = {}
        for t, bbody, _n in (if_chain(fbody, first[0])[0] if first else []):
            fmt = t.comparators[0].value if isinstance(t, ast.Compare) and isinstance(t.comparators[0], ast.Constant) else None
            try:
                vn = VN(prog, f)
                val = vn.run(bbody)
                seen[fmt] = val
            except VNUnknown:
                seen[fmt] = None
        dref = [VN(prog, f).expr(ast.parse(d, mode="eval").body) for d in dosage]
        for fmt, shift in (("{0,1,2}", 0), ("{-1,0,1}", -1)):
            v = seen.get(fmt)
            if v is None:
                rep.unrec("R1-definitions", construct, "coding %s not straight-line" % fmt)
                continue
            if any(v == d + Poly.const(shift) for d in dref):
                rep.ok("R1-definitions", construct + "#" + fmt, "coding %s = dosage %+d" % (fmt, shift))
            else:
                rep.violate("R1-definitions", construct, "coding %s is %s, not the allele dosage %+d" % (fmt, v.show()[:100], shift), where(f),
                            "%s %+d" % (dosage[0], shift), v.show()[:100])


def check_gtcount(prog, rep, K):
    f = prog.lookup_method(K, "gtcount")
    if f is None:
        rep.unrec("R3-classes", K.qualname, "gtcount vanished")
        return
    rep.saw(f)
    construct = "%s.gtcount" % K.qualname
    defs = {}
    for n in walk_no_nested(f.node):
        if isinstance(n, ast.Assign) and len(n.targets) == 1 and isinstance(n.targets[0], ast.Name):
            defs.setdefault(n.targets[0].id, []).append(n.value)
    loops = [s for s in body_nodoc(f.node) if isinstance(s, ast.For)]
    if not loops:
        # comprehension form: out = numpy.array([<row i> for i in range(n)], ...) is the loop `for i in range(n): out[i] = <row i>` over an n-row allocation
        for s in body_nodoc(f.node):
            v = s.value if isinstance(s, ast.Assign) and len(s.targets) == 1 and isinstance(s.targets[0], ast.Name) else None
            if (isinstance(v, ast.Call) and prog.dotted(f.module, v.func) in ("numpy.array", "numpy.asarray", "numpy.stack", "numpy.vstack") and v.args
                    and isinstance(v.args[0], ast.ListComp) and len(v.args[0].generators) == 1 and not v.args[0].generators[0].ifs
                    and isinstance(v.args[0].generators[0].target, ast.Name)):
                g_ = v.args[0].generators[0]
                o_ = s.targets[0].id
                lp_ = ast.For(target=g_.target, iter=g_.iter, orelse=[], body=[ast.Assign(targets=[ast.Subscript(value=ast.Name(id=o_, ctx=ast.Load()), slice=g_.target, ctx=ast.Store())],
                                                                                        value=v.args[0].elt)])
                ast.copy_location(lp_, s)
                ast.copy_location(lp_.body[0], s)
                ast.fix_missing_locations(lp_)
                loops = [lp_]
                if isinstance(g_.iter, ast.Call) and g_.iter.args:
                    defs[o_] = [ast.parse("numpy.empty((%s, self.nvrnt))" % dump(g_.iter.args[0]), mode="eval").body]
                break
    if len(loops) != 1:
        rep.unrec("R3-classes", construct, "expected one loop over genotype classes")
        return
    lp = loops[0]
    it = lp.iter
    if not (isinstance(it, ast.Call) and dump(it.func) == "range" and len(it.args) == 1):
        rep.unrec("R3-classes", construct, "class loop not range(n)")
        return
    nexpr = it.args[0]
    if isinstance(nexpr, ast.Name) and len(defs.get(nexpr.id, [])) == 1:
        nexpr = defs[nexpr.id][0]
    # number of classes = ploidy + 1
    good = True
    okn = False
    if isinstance(nexpr, ast.BinOp) and isinstance(nexpr.op, ast.Add) and (is_const(nexpr.right, 1) or is_const(nexpr.left, 1)):
        base = nexpr.left if is_const(nexpr.right, 1) else nexpr.right
        fld = field_of(base)
        if fld == "ploidy":
            okn = True
        elif fld == "nphase":
            c = prog.const_prop(K, "nphase")
            if c is None:
                okn = True      # nphase is data-derived (phased matrix: number of phases == ploidy)
            else:
                rep.violate("R3-classes", construct, "genotype classes are counted for i in range(nphase + 1) but nphase is the constant %r on this class: only %d of the "
                            "ploidy+1 classes are counted" % (c, c + 1), where(f, lp), "range(self.ploidy + 1)", dump(nexpr))
                good = False
                okn = True
    if not okn:
        rep.unrec("R3-classes", construct, "number of classes %s not modelled" % dump(nexpr))
        return
    i = dump(lp.target)
    if len(lp.body) != 1 or not isinstance(lp.body[0], ast.Assign):
        rep.unrec("R3-classes", construct, "class loop body not a single store")
        return
    st = lp.body[0]
    t = st.targets[0]
    if not (isinstance(t, ast.Subscript) and dump(t.slice) == i):
        rep.violate("R3-classes", construct, "class %s is written to %s" % (i, dump(t)), where(f, st), "out[%s]" % i, dump(t))
        good = False
    v = st.value
    okv = (isinstance(v, ast.Call) and isinstance(v.func, ast.Attribute) and v.func.attr == "sum" and isinstance(v.func.value, ast.Compare)
           and isinstance(v.func.value.ops[0], ast.Eq) and i in (dump(v.func.value.comparators[0]), dump(v.func.value.left)))
    if okv and dump(v.func.value.left) == i:
        # `i == dosage` and `dosage == i` are the same test: read it with the class index on the right
        v.func.value.left, v.func.value.comparators = v.func.value.comparators[0], [v.func.value.left]
    if not okv:
        rep.violate("R3-classes", construct, "row %s is %s, not the number of taxa whose dosage equals %s" % (i, dump(v)[:60], i), where(f, st), "(dosage == %s).sum(taxa)" % i, dump(v)[:60])
        good = False
    else:
        dos = v.func.value.left
        dv = defs.get(dos.id, [None])[0] if isinstance(dos, ast.Name) else dos
        want = ["self._mat", "self.mat"] if K.name == "DenseGenotypeMatrix" else ["self._mat.sum(self.phase_axis)", "self.mat.sum(self.phase_axis)"]
        same = dv is not None and dump(dv) in want
        undecided = dv is None
        if not same and dv is not None:
            # the same value in another spelling (axis as keyword, numpy.sum(...)): compare by value number
            try:
                dvn = VN(prog, f).expr(dv)
                refs_ = [VN(prog, f).expr(ast.parse(w_, mode="eval").body) for w_ in want]
                same = any(dvn == r_ for r_ in refs_)
                undecided = not same and not any(comparable(dvn, r_) for r_ in refs_)
            except VNUnknown:
                undecided = True
        if undecided:
            rep.unrec("R3-classes", construct, "dosage %s not traced / written with operators the rule does not model" % (dump(dv)[:60] if dv is not None else dump(dos)))
            good = False
        elif not same:
            rep.violate("R3-classes", construct, "classes are counted on %s, not on the allele dosage (%s)" % (dump(dv) if dv is not None else "?", want[0]), where(f, st), want[0],
                        dump(dv) if dv is not None else "?")
            good = False
    # allocation has n rows
    outn = t.value.id if isinstance(t.value, ast.Name) else None
    al = defs.get(outn, [None])[0]
    if al is None or not (isinstance(al, ast.Call) and dump(al.func) in ("numpy.empty", "numpy.zeros") and isinstance(al.args[0], ast.Tuple)
                          and dump(al.args[0].elts[0]) == dump(it.args[0])):
        rep.unrec("R3-classes", construct, "result allocation not (nclasses, nvrnt)")
        good = False
    if good:
        rep.ok("R3-classes", construct, "rows i = 0..ploidy, row i = (dosage == i).sum(taxa); all ploidy+1 rows written")


FLAG_FORMS = [
    (("freq", "fixed"), ["(self.afreq() == 0.0) | (self.afreq() == 1.0)", "numpy.logical_or(self.afreq() == 0.0, self.afreq() == 1.0)"]),
    (("freq", "poly"), ["(self.afreq() > 0.0) & (self.afreq() < 1.0)", "numpy.logical_and(self.afreq() > 0.0, self.afreq() < 1.0)"]),
    (("all", "poly"), ["numpy.logical_not(numpy.all(self.mat == 0, axis=AX) | numpy.all(self.mat == 1, axis=AX))", "~(numpy.all(self.mat == 0, axis=AX) | numpy.all(self.mat == 1, axis=AX))"]),
    (("all", "fixed"), ["numpy.all(self.mat == 0, axis=AX) | numpy.all(self.mat == 1, axis=AX)"]),
]


def _flag_form(prog, f):
    """classify a fixation/polymorphism flag body by its value-numbered result (locals inlined, so their names do not matter):
    ('freq','fixed'|'poly') or ('all','fixed'|'poly') or None"""
    import copy
    body = [copy.deepcopy(x) for x in body_nodoc(f.node)]
    for x in body:
        for c in ast.walk(x):
            # frequencies requested with arguments are still the frequency form (the argument itself is judged by the dtype rule)
            if isinstance(c, ast.Call) and isinstance(c.func, ast.Attribute) and c.func.attr == "afreq" and dump(c.func.value) == "self":
                c.args, c.keywords = [], []
    try:
        got, _ = _normalise_stat(prog, f, body)
    except VNUnknown:
        return None
    for form, texts in FLAG_FORMS:
        for t in texts:
            for ax in ("(self.phase_axis, self.taxa_axis)", "self.taxa_axis", "0", "(0, 1)"):
                try:
                    ref = VN(prog, f).expr(ast.parse(t.replace("AX", ax), mode="eval").body)
                except VNUnknown:
                    continue
                if got == ref:
                    return form
    return None


def _forall_of_disjunction(prog, f):
    """(outer axis text, disjunction text) when the body computes all(A | B, axis=P) with A, B themselves all(<mat == c>, axis=T): the quantifier was not distributed"""
    defs = {}
    for st in walk_no_nested(f.node):
        if isinstance(st, ast.Assign) and len(st.targets) == 1 and isinstance(st.targets[0], ast.Name):
            defs.setdefault(st.targets[0].id, []).append(st.value)

    def res(e):
        return defs[e.id][0] if isinstance(e, ast.Name) and len(defs.get(e.id, [])) == 1 else e

    def is_all(e):
        e = res(e)
        if isinstance(e, ast.Call) and prog.dotted(f.module, e.func) in ("numpy.all", "numpy.alltrue") and e.args:
            kw, _ = kwargs_of(e)
            ax = kw.get("axis") or (e.args[1] if len(e.args) > 1 else None)
            return e.args[0], ax
        if isinstance(e, ast.Call) and isinstance(e.func, ast.Attribute) and e.func.attr == "all":
            kw, _ = kwargs_of(e)
            ax = kw.get("axis") or (e.args[0] if e.args else None)
            return e.func.value, ax
        return None
    for c in ast.walk(f.node):
        outer = is_all(c) if isinstance(c, ast.Call) else None
        if not outer or outer[1] is None:
            continue
        inner = res(outer[0])
        parts = None
        if isinstance(inner, ast.BinOp) and isinstance(inner.op, ast.BitOr):
            parts = [inner.left, inner.right]
        elif isinstance(inner, ast.Call) and prog.dotted(f.module, inner.func) == "numpy.logical_or" and len(inner.args) == 2:
            parts = list(inner.args)
        if parts and all(is_all(x) is not None and is_all(x)[1] is not None for x in parts):
            return dump(outer[1]), dump(inner)
    return None


def check_complement(prog, rep, K):
    fa, fp = prog.lookup_method(K, "afixed"), prog.lookup_method(K, "apoly")
    if fa is None or fp is None:
        rep.unrec("R4-complement", K.qualname, "afixed / apoly vanished")
        return
    rep.saw(fa)
    rep.saw(fp)
    a, p = _flag_form(prog, fa), _flag_form(prog, fp)
    construct = "%s.afixed/apoly" % K.qualname
    # a frequency-form flag compares the FULL-PRECISION frequency: the requested output dtype is applied to the flag, never to the frequency
    for fl, form in ((fa, a), (fp, p)):
        if form is None or form[0] != "freq":
            continue
        for st in walk_no_nested(fl.node):
            if isinstance(st, ast.Assign) and len(st.targets) == 1 and isinstance(st.targets[0], ast.Name) and isinstance(st.value, ast.Call) \
                    and isinstance(st.value.func, ast.Attribute) and st.value.func.attr == "afreq":
                c = st.value
                if dump(c.func) == "self.afreq" and (c.args or c.keywords):
                    rep.violate("R4-complement", fl.qualname, "the flag compares %s: the frequency is cast to the requested OUTPUT dtype before the == 0 / == 1 tests, so with "
                                "an integer or bool dtype every segregating frequency truncates to 0 (or 1) and the flag is no longer the complement of the other one"
                                % dump(c), where(fl, st), "afreq = self.afreq()", dump(c))
                elif dump(c.func) != "self.afreq":
                    rep.unrec("R4-complement", fl.qualname, "frequency taken from %s" % dump(c)[:40])
    weak = [(fl, w) for fl, form in ((fa, a), (fp, p)) if form is None for w in [_forall_of_disjunction(prog, fl)] if w]
    for fl, w in weak:
        rep.violate("R4-complement", fl.qualname, "the flag reduces with all() over %s a DISJUNCTION of per-slice tests (%s): for-all of (A or B) is weaker than (for-all A) or (for-all B) "
                    "- a locus whose slices are each constant but carry different alleles (e.g. one allele per phase, frequency 1/2) is reported as not polymorphic" % w,
                    where(fl), "all(mat == 0, axis=(phase, taxa)) | all(mat == 1, axis=(phase, taxa))", w[1])
    if weak:
        pass
    elif a is None or p is None:
        rep.unrec("R4-complement", construct, "flag definitions not in a modelled form")
    elif a[1] == "fixed" and p[1] == "poly":
        rep.ok("R4-complement", construct, "afixed = %s-form fixed, apoly = %s-form polymorphic: complements for exact frequencies (R5)" % (a[0], p[0]))
    else:
        rep.violate("R4-complement", construct, "afixed is the %s predicate and apoly the %s predicate: they are not complements" % (a[1], p[1]), where(fp), "fixed / poly",
                    "%s / %s" % (a[1], p[1]))


def NOT_SELECTION(f):
    """sinks inside the selection-criterion package belong to C05 (R9-exact-frequency)"""
    return not f.module.name.startswith("pybrops.breed.prot.sel")


def taint_functions(prog, extra_modules=()):
    mods = {"pybrops.popgen.gmat.DenseGenotypeMatrix", "pybrops.popgen.gmat.DensePhasedGenotypeMatrix", "pybrops.model.gmod.DenseAdditiveLinearGenomicModel",
            "pybrops.model.gmod.DenseLinearGenomicModel", "pybrops.model.gmod.DenseAdditiveDominanceLinearGenomicModel", "pybrops.breed.prot.gt.DenseUnphasedGenotyping"}
    mods |= set(extra_modules)
    return [f for f in prog.all_functions() if f.module.name in mods]


def check_exactness(prog, rep, tier, rule="R5-exact-at-one", funcs=None, sink_filter=None):
    funcs = funcs if funcs is not None else (list(prog.all_functions()) if tier == "thorough" else taint_functions(prog))
    ta = InexactTaint(prog, funcs).run()
    rep.extra["taint"] = {"functions": len(funcs), "sources": len(ta.sources), "comparisons_with_one": ta.candidates, "tainted_sinks": len(ta.sinks),
                          "tainted_returning": sorted(f.qualname for f in funcs if ta.ret.get(id(f)))[:20]}
    seen = set()
    for f, node, txt in ta.sinks:
        if sink_filter is not None and not sink_filter(f):
            continue
        rep.saw(f)
        srcs = sorted({"%s: %s" % (g.qualname.split(":")[-1], dump(s)[:50]) for g, s in ta.sources})
        rep.violate(rule, f.qualname, "a frequency computed as (1/D)*count reaches the comparison `%s`: for D in {49, 98, 103, 107, ...} a fixed locus has "
                    "frequency 0.9999999999999999 and the comparison gives the wrong answer" % txt, where(f, node), "frequency = count / D (exact at fixation)", txt)
        seen.add(id(node))
    n_ok = 0
    for f in funcs:
        if sink_filter is not None and not sink_filter(f):
            continue
        for n in walk_no_nested(f.node):
            if isinstance(n, ast.Compare) and len(n.ops) == 1 and id(n) not in seen:
                l, r = n.left, n.comparators[0]
                if any(isinstance(x, ast.Constant) and not isinstance(x.value, bool) and isinstance(x.value, (int, float)) and x.value == 1 for x in (l, r)) \
                        and isinstance(n.ops[0], (ast.Eq, ast.NotEq, ast.GtE, ast.Lt, ast.LtE, ast.Gt)):
                    n_ok += 1
                    rep.ok(rule, "%s#%s" % (f.qualname, dump(n)[:40]), "comparison with 1 receives no (1/D)*N value")
    return ta


def check_accumulators(prog, rep, K, methods, rule="R6-accumulator"):
    for m in methods:
        f = prog.lookup_method(K, m)
        if f is None:
            continue
        rep.saw(f)
        sc = DtypeScan(prog, f, K).run()
        construct = "%s.%s" % (K.qualname, m)
        for node, msg in sc.findings:
            rep.violate(rule, construct, msg, where(f, node), "accumulate in a wide integer / float dtype", dump(node)[:60])
        if not sc.findings:
            rep.ok(rule, construct, "no reduction over taxa/variants and no product in the int8 storage dtype (%d reduction(s) of int8 data examined)" % sc.checked)


def check_ploidy_carried(prog, rep, K):
    """R7-ploidy: every structural operation of the genotype classes hands the ploidy to the matrix it builds (field-flow analysis shared with C03-R1)"""
    from rules import c03
    from sa.report import RuleProxy
    ai = c03.AxisInfo(prog, K)
    proxy = RuleProxy(rep, {"R1-fields": "R7-ploidy"}, keep=lambda d: "ploidy" in d, forward_ok=False)
    n = 0
    for A in ai.axes:
        for op in c03.NONMUT:
            before = len(rep.violations)
            s = c03.check_op(prog, proxy, K, ai, A, op, "quick")
            if s is not None:
                n += 1
                if len(rep.violations) == before:
                    rep.ok("R7-ploidy", "%s.%s_%s" % (K.qualname, op, A), "the matrix built by %s_%s receives the ploidy of its source (every statistic divides by it)" % (op, A))
    return n


def check_fresh(prog, rep, K, stats):
    """R8-fresh: a summary statistic neither writes the object's own storage nor hands it out: no in-place update reaches an attribute of the matrix (directly, or
    through the value another statistic returns by reference, e.g. a cached frequency vector that maf() then folds in place), so two reads of an unmodified
    population agree and the limits computed from the frequencies describe the population they were asked about"""
    from sa.purity import Purity, root_text
    R = "R8-fresh"
    summaries = {}
    for m in stats:
        f = prog.lookup_method(K, m)
        if f is None or not hasattr(f, "node"):
            continue
        construct = "%s.%s" % (K.qualname, m)
        try:
            pu = Purity(prog, f, summaries)
            pu.K = K
        except RecursionError:
            rep.unrec(R, construct, "alias walk did not terminate")
            continue
        rep.saw(f)
        evs = [e for e in pu.events if any(r[0] == "attr" for r in e.roots)]
        stored = sorted({field_of(t) for st in walk_no_nested(f.node) if isinstance(st, (ast.Assign, ast.AugAssign))
                         for t in (st.targets if isinstance(st, ast.Assign) else [st.target]) if isinstance(t, ast.Attribute) and field_of(t)})
        if evs:
            e = evs[0]
            r0 = sorted(r for r in e.roots if r[0] == "attr")[0]
            rep.violate(R, construct, "`%s` updates in place %s: the statistic changes the object's stored state, so a later read of the same unmodified population gives "
                        "another answer" % (e.what, root_text(r0)), where(f, e.node), "a fresh array", e.what)
        elif stored:
            # a statistic that stores on the object (a cache) must be invalidated by every writer of the genotype array
            writers = []
            for C in [K] + [c for c in prog.mro(K) if hasattr(c, "methods")]:
                for g in C.methods.values():
                    if g.name in ("__init__",) or g is f:
                        continue
                    for st in walk_no_nested(g.node):
                        if isinstance(st, ast.Assign) and any(isinstance(t, ast.Attribute) and field_of(t) in ("_mat", "mat") for t in st.targets):
                            resets = {field_of(t) for s2 in walk_no_nested(g.node) if isinstance(s2, ast.Assign) for t in s2.targets if isinstance(t, ast.Attribute)}
                            if not set(stored) <= resets and g.qualname not in [w.qualname for w in writers]:
                                writers.append(g)
            if writers:
                rep.violate(R, construct, "%s() keeps its result on the object (self.%s) but %s assigns the genotype array without resetting it: after that change the statistic "
                            "still describes the previous population" % (m, ", self.".join(stored), ", ".join(sorted({w.cls.name + "." + w.name for w in writers}))[:120]),
                            where(f), "no state kept by a statistic, or reset at every writer of the matrix", "self.%s" % stored[0])
            else:
                rep.ok(R, construct, "keeps self.%s, reset by every writer of the genotype array" % ", self.".join(stored))
        else:
            rep.ok(R, construct, "writes no storage of the object and stores nothing on it")


def check_projection_ploidy(prog, rep):
    """R7-ploidy (projection): the unphased projection of a phased matrix is built with the ploidy of its source - every statistic of the projection divides by it,
    and the constructor's default (2) is right for diploids only"""
    for mod, cname in (("pybrops.breed.prot.gt.DenseUnphasedGenotyping", "DenseUnphasedGenotyping"), ("pybrops.breed.prot.gt.DenseMaskedUnphasedGenotyping", "DenseMaskedUnphasedGenotyping")):
        try:
            K = prog.get_class(cname, mod)
        except Exception:
            continue
        f = K.methods.get("genotype")
        if f is None:
            continue
        rep.saw(f)
        src = f.params()[1] if len(f.params()) > 1 else "pgmat"
        ctors = [c for c in walk_no_nested(f.node) if isinstance(c, ast.Call) and isinstance(c.func, ast.Name) and c.func.id == "DenseGenotypeMatrix"]
        if len(ctors) != 1:
            rep.unrec("R7-ploidy", f.qualname, "construction of the unphased matrix not found")
            continue
        kws, stars = kwargs_of(ctors[0])
        defs = {}
        for st in walk_no_nested(f.node):
            if isinstance(st, ast.Assign) and len(st.targets) == 1 and isinstance(st.targets[0], ast.Name):
                defs.setdefault(st.targets[0].id, []).append(st.value)
        v = kws.get("ploidy")
        if isinstance(v, ast.Name) and len(defs.get(v.id, [])) == 1:
            v = defs[v.id][0]
        hidden = [s_ for s_ in stars if not (isinstance(s_, ast.Name) and s_.id == (f.node.args.kwarg.arg if f.node.args.kwarg else None))]
        if v is None and hidden:
            rep.unrec("R7-ploidy", f.qualname, "constructor keywords are passed through %s" % dump(hidden[0])[:40])
        elif v is None:
            rep.violate("R7-ploidy", f.qualname, "the unphased matrix is built without ploidy=: it gets the constructor default 2 whatever the number of phases of the source "
                        "(allele frequencies, heterozygosity and genotype classes of a haploid / tetraploid projection are wrong)", where(f, ctors[0]), "ploidy=%s.ploidy" % src, "absent")
        elif dump(v) in ("%s.ploidy" % src, "%s.nphase" % src):
            rep.ok("R7-ploidy", f.qualname, "projection built with ploidy=%s" % dump(v))
        else:
            rep.violate("R7-ploidy", f.qualname, "the unphased matrix is built with ploidy=%s, not the ploidy of its source" % dump(v)[:40], where(f, ctors[0]), "ploidy=%s.ploidy" % src, dump(v)[:40])


def check_phased_ploidy(prog, rep):
    """R7-ploidy (phased matrix): the phased class never hands a ploidy to its base constructor, so the ploidy it reports is the number of phases it stores"""
    K = prog.get_class(PGM[1], PGM[0])
    P = prog.lookup_prop(K, "ploidy")
    f = P.getter if P is not None else None
    if f is None:
        rep.unrec("R7-ploidy", K.qualname, "ploidy getter vanished")
        return
    rep.saw(f)
    construct = "%s.ploidy" % K.qualname
    body = body_nodoc(f.node)
    ax = prog.const_prop(K, "phase_axis")
    if len(body) != 1 or not isinstance(body[0], ast.Return):
        rep.unrec("R7-ploidy", construct, "getter not a single return")
        return
    v = "".join(dump(body[0].value).split())
    good = {"self._mat.shape[self.phase_axis]", "self.mat.shape[self.phase_axis]", "self.nphase", "self._mat.shape[%s]" % ax, "len(self._mat)" if ax == 0 else "-", "len(self.mat)" if ax == 0 else "-"}
    if v in good:
        rep.ok("R7-ploidy", construct, "ploidy = number of stored phases")
    elif v in ("self._ploidy",) or isinstance(body[0].value, ast.Constant):
        rep.violate("R7-ploidy", construct, "the phased matrix reports %s as its ploidy; its constructor never sets that from the data (the base default is 2), so a haploid or "
                    "tetraploid phased matrix divides every frequency by the wrong ploidy" % v, where(f), "self._mat.shape[self.phase_axis]", v)
    else:
        rep.unrec("R7-ploidy", construct, "ploidy is %s" % v[:50])


def check_import_ploidy(prog, rep):
    """R7-ploidy (import): the unphased matrix read from a VCF file gets the number of phases of the calls as ploidy - read from the phased call array BEFORE its
    phase axis is summed away (afterwards the leading axis is the taxa axis)"""
    K = prog.get_class(GM[1], GM[0])
    f = K.methods.get("from_vcf")
    if f is None:
        rep.unrec("R7-ploidy", K.qualname, "from_vcf vanished")
        return
    rep.saw(f)
    body = body_nodoc(f.node)
    ctors = [c for c in walk_no_nested(f.node) if isinstance(c, ast.Call) and isinstance(c.func, ast.Name) and c.func.id == "cls"]
    kws = kwargs_of(ctors[0])[0] if len(ctors) == 1 else {}
    P, M = kws.get("ploidy"), kws.get("mat")
    if not (isinstance(P, ast.Name) and isinstance(M, ast.Name)):
        rep.unrec("R7-ploidy", f.qualname, "constructor call cls(mat=<name>, ploidy=<name>) not found")
        return
    pdef = [(i, st) for i, st in enumerate(body) if isinstance(st, ast.Assign) and any(isinstance(t, ast.Name) and t.id == P.id for t in st.targets)]
    red = [(i, st) for i, st in enumerate(body) if isinstance(st, ast.Assign) and any(isinstance(t, ast.Name) and t.id == M.id for t in st.targets)
           and isinstance(st.value, ast.Call) and isinstance(st.value.func, ast.Attribute) and st.value.func.attr == "sum" and dump(st.value.func.value) == M.id]
    if len(pdef) != 1 or len(red) != 1:
        rep.unrec("R7-ploidy", f.qualname, "expected one definition of %s and one phase reduction of %s at the top level of from_vcf" % (P.id, M.id))
        return
    (ip, sp), (ir, sr) = pdef[0], red[0]
    v = sp.value
    is_len = (isinstance(v, ast.Call) and dump(v.func) == "len" and len(v.args) == 1 and dump(v.args[0]) == M.id) or dump(v) in ("%s.shape[0]" % M.id,)
    if not is_len:
        rep.unrec("R7-ploidy", f.qualname, "ploidy is %s, not the leading extent of %s" % (dump(v)[:40], M.id))
    elif ip > ir:
        rep.violate("R7-ploidy", f.qualname, "ploidy is read from %s AFTER its phase axis is summed away (%s): it is the number of samples, every frequency / class count of the "
                    "imported matrix divides by it" % (M.id, dump(sr)[:50]), where(f, sp), "%s before %s" % (dump(sp)[:30], dump(sr)[:30]), "after")
    else:
        rep.ok("R7-ploidy", f.qualname, "ploidy = number of phases of the call array, read before the phases are summed")


def run(prog, rep, tier):
    rep.explanation = ("Spec congruence of every statistic with its definition through an algebraic normal form (both genotype classes), structural rule for the "
                       "genotype-class count, complement forms, a forward taint (reciprocal-multiply values reaching comparisons with 1) with function summaries, "
                       "and a dtype rule against accumulation in the int8 storage type.")
    rep.not_decided = ["dtype conversion corner cases of user-requested output dtypes", "exact floating-point results away from the 0/1 boundary"]
    for r, n in (("R1-definitions", 14), ("R3-classes", 2), ("R4-complement", 2), ("R5-exact-at-one", 4), ("R6-accumulator", 16), ("R7-ploidy", 10), ("R8-fresh", 20)):
        rep.floor(r, n)
    for mod, cname in (GM, PGM):
        K = prog.get_class(cname, mod)
        check_definitions(prog, rep, K)
        check_gtcount(prog, rep, K)
        check_complement(prog, rep, K)
        check_accumulators(prog, rep, K, STATS)
        check_ploidy_carried(prog, rep, K)
        check_fresh(prog, rep, K, STATS)
    check_projection_ploidy(prog, rep)
    check_import_ploidy(prog, rep)
    check_phased_ploidy(prog, rep)
    check_exactness(prog, rep, tier, sink_filter=NOT_SELECTION)
