#!/usr/bin/env python3
"""
Writes sa/reference.json from the CURRENT /repo tree (run it on the unchanged tree only, after a `fix:` commit that changes a signature or adds a helper):
  "signatures":  qualname -> parameter names of every function / method of the package
  "helpers":     qualnames of the private (`_name`) functions / methods that exist today
The program model uses the table to tell what is NEW in the tree it analyses: a parameter that is not in the table and has a constant default is read as
that default (no caller of today's API can bind it), and a private helper that is not in the table is inlined at its call sites, so that the rules see the
code in the shape they were written for.  Nothing in the table suppresses a report.
"""
import json, os, sys
here = os.path.dirname(os.path.dirname(os.path.abspath(__file__)))
sys.path.insert(0, here)
os.environ["VERIF_NO_REFERENCE"] = "1"
from sa.model import load_program

prog = load_program("/repo")
sig, helpers = {}, []
for m in prog.modules.values():
    fs = list(m.functions.values()) + [f for K in m.classes.values() for f in K.methods.values()]
    for f in fs:
        a = f.node.args
        sig[f.qualname] = [x.arg for x in a.posonlyargs + a.args + a.kwonlyargs]
        if f.name.startswith("_") and not f.name.startswith("__"):
            helpers.append(f.qualname)
json.dump({"signatures": sig, "helpers": sorted(helpers)}, open(os.path.join(here, "sa", "reference.json"), "w"), indent=0, sort_keys=True)
print("signatures:", len(sig), "private helpers:", len(helpers))
