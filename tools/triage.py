#!/usr/bin/env python3
"""
Development-time helper (never called by a registered check): after READING a reported construct and
deciding it is a genuine defect that is not a small safe repair, record it in known_findings.json.
  tools/triage.py C08 'substring of construct' "why not fixed"
Adds every currently reported, unlisted violation of that property whose construct contains the substring.
"""
import json, os, subprocess, sys, glob
here = os.path.dirname(os.path.dirname(os.path.abspath(__file__)))
prop, sub, why = sys.argv[1:4]
for p in glob.glob(os.path.join(here, "evidence/violations/%s-*.json" % prop)): os.remove(p)
subprocess.run([os.path.join(here, "check"), prop] + (["--tier", os.environ["TIER"]] if os.environ.get("TIER") else []), env=dict(os.environ, VERIF_EVID_DIR="/tmp/ev_triage"), capture_output=True)
kf = json.load(open(os.path.join(here, "known_findings.json")))
have = {(e["property"], e["rule"], e["construct"], e["detail"]) for e in kf["findings"]}
n = 0
for p in sorted(glob.glob(os.path.join(here, "evidence/violations/%s-*.json" % prop))):
    v = json.load(open(p))
    if sub not in v["construct"] and sub not in v["detail"]: continue
    key = (v["property"], v["rule"], v["construct"], v["detail"])
    if key in have: continue
    kf["findings"].append({"property": v["property"], "rule": v["rule"], "construct": v["construct"], "detail": v["detail"], "why_not_fixed": why})
    n += 1
kf["findings"].sort(key=lambda e: (e["property"], e["rule"], e["construct"], e["detail"]))
json.dump(kf, open(os.path.join(here, "known_findings.json"), "w"), indent=1)
print("added", n)
