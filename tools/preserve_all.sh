#!/bin/sh
# Runs every behaviour-preserving whole-package transformation of tools/rename_test.py and demands 20 x exit 0 for each (development tool).
cd "$(dirname "$0")/.."
bad=0
for m in rename nested jointuple commute kwcalls inline npalias extract unelse negif negcmp strip npaxis npaxiskw defsort swapindep kwperm trimslice splittuple; do
  out=$(tools/rename_test.py --mode $m "$@" 2>&1 | tail -1)
  echo "$m: $out"
  case "$out" in *"0 false alarms, 0 undecided"*) ;; *) bad=1;; esac
done
exit $bad
