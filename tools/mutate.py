#!/usr/bin/env python3
"""
Development-time mutation helper (not registered in MANIFEST).
  tools/mutate.py C20 pybrops/breed/arch/X.py 'old text' 'new text' [occurrence]
Copies /repo/pybrops to a scratch dir, applies one textual replacement, runs ./check <id>
against the copy (VERIF_REPO) and prints the verdict lines.  Scratch dir is removed.
With a patch file: tools/mutate.py C20 --patch file.diff
"""
import os, shutil, subprocess, sys, tempfile
here = os.path.dirname(os.path.dirname(os.path.abspath(__file__)))
def main():
    ids = sys.argv[1].split(",")
    tmp = tempfile.mkdtemp(prefix="mut_", dir="/tmp")
    try:
        shutil.copytree("/repo/pybrops", os.path.join(tmp, "pybrops"), ignore=shutil.ignore_patterns("__pycache__"))
        if sys.argv[2] == "--patch":
            r = subprocess.run(["patch", "-p1", "-s", "-i", os.path.abspath(sys.argv[3])], cwd=tmp)
            if r.returncode: print("PATCH FAILED"); return 3
        else:
            rel, old, new = sys.argv[2:5]
            occ = int(sys.argv[5]) if len(sys.argv) > 5 else None
            p = os.path.join(tmp, rel)
            s = open(p).read()
            n = s.count(old)
            if n == 0: print("OLD TEXT NOT FOUND"); return 3
            if occ is None:
                if n != 1: print("OLD TEXT FOUND %d TIMES; give occurrence" % n); return 3
                s = s.replace(old, new)
            else:
                parts = s.split(old)
                s = old.join(parts[:occ]) + new + old.join(parts[occ:])
            open(p, "w").write(s)
            import ast; ast.parse(s)
        env = dict(os.environ, VERIF_REPO=tmp, VERIF_EVID_DIR=os.path.join(tmp, "evidence"))
        rc = 0
        for i in ids:
            r = subprocess.run([os.path.join(here, "check"), i] + (["--tier", os.environ["TIER"]] if os.environ.get("TIER") else []),
                               env=env, capture_output=True, text=True)
            lines = [l for l in r.stdout.splitlines() if l.startswith(("VIOLATION", "ANALYSIS-ERROR", "  ", "STALE")) and "rule " not in l[:8]]
            print("%s rc=%d" % (i, r.returncode)); print("\n".join(lines[:12]))
            if r.stderr.strip(): print(r.stderr[-1500:])
            rc = max(rc, r.returncode)
        return rc
    finally:
        shutil.rmtree(tmp, ignore_errors=True)
sys.exit(main())
