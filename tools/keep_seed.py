#!/usr/bin/env python3
"""
Confirm a seeded change in a scratch worktree of /repo and keep it under /verif/seeded/<name>/.
  tools/keep_seed.py C20 /tmp/seed/C20a/m1 C20-shallow-gmod "needs: ..."
Confirms: (1) patch applies and library imports, (2) the pinned tests still pass with it,
(3) demo passes without the patch, (4) demo fails with it.  Then runs ./check <ids> on a copy
with the patch and records which checks caught it.
"""
import json, os, shutil, subprocess, sys, tempfile, glob
here = os.path.dirname(os.path.dirname(os.path.abspath(__file__)))
PY = "/venv/bin/python"
def sh(cmd, cwd=None, env=None, timeout=1800):
    r = subprocess.run(cmd, shell=True, cwd=cwd, env=env, capture_output=True, text=True, timeout=timeout)
    return r.returncode, (r.stdout + r.stderr)
def main():
    prop, src, name = sys.argv[1:4]
    needs = sys.argv[4] if len(sys.argv) > 4 else ""
    check_ids = sys.argv[5] if len(sys.argv) > 5 else prop
    wt = tempfile.mkdtemp(prefix="confirm_", dir="/tmp"); os.rmdir(wt)
    rc, out = sh("git -C /repo worktree add --detach -f %s HEAD" % wt)
    assert rc == 0, out
    try:
        demo = [p for p in glob.glob(os.path.join(src, "*.py"))]
        assert demo, "no demo"
        demo_main = os.path.join(src, "demo.py") if os.path.exists(os.path.join(src, "demo.py")) else demo[0]
        env = dict(os.environ, PYTHONPATH=wt)
        runner = PY + " " + demo_main if "def test_" not in open(demo_main).read() or "__main__" in open(demo_main).read() else PY + " -m pytest -q -p no:cacheprovider " + demo_main
        rc0, out0 = sh(runner, cwd=wt, env=env)
        rcp, outp = sh("git apply %s" % os.path.join(src, "patch.diff"), cwd=wt)
        assert rcp == 0, "patch does not apply: " + outp
        rci, outi = sh(PY + " -c 'import numpy; numpy.float_=numpy.float64; import pybrops; print(pybrops.__file__)'", cwd=wt, env=env)
        rct, outt = sh(PY + " -m pytest -q -p no:cacheprovider --timeout=900 --continue-on-collection-errors 2>&1 | tail -3", cwd=wt, env=env)
        rc1, out1 = sh(runner, cwd=wt, env=env)
        files = sh("git diff --name-only", cwd=wt)[1].split()
    finally:
        sh("git -C /repo worktree remove --force %s" % wt)
    print("demo without patch rc=%d ; with patch rc=%d ; import rc=%d ; tests: %s" % (rc0, rc1, rci, outt.strip().splitlines()[-1] if outt.strip() else "?"))
    okk = rc0 == 0 and rc1 != 0 and rci == 0 and "92 passed" in outt
    if not okk:
        print("NOT CONFIRMED"); print(out0[-800:]); print(out1[-800:]); print(outt[-500:]); return 1
    # which checks catch it
    caught = {}
    for cid in check_ids.split(","):
        r = subprocess.run([os.path.join(here, "tools/mutate.py"), cid, "--patch", os.path.join(src, "patch.diff")], capture_output=True, text=True)
        caught[cid] = {"rc": r.returncode, "lines": [l for l in r.stdout.splitlines() if l.startswith(("VIOLATION", "  ", "ANALYSIS"))][:6]}
        print(cid, "rc", r.returncode); print("\n".join(caught[cid]["lines"]))
    dst = os.path.join(here, "seeded", name)
    os.makedirs(dst, exist_ok=True)
    shutil.copy(os.path.join(src, "patch.diff"), dst)
    for p in demo: shutil.copy(p, dst)
    if os.path.exists(os.path.join(src, "notes.md")): shutil.copy(os.path.join(src, "notes.md"), dst)
    meta = {"property": prop, "files": files, "needs_to_manifest": needs,
            "confirmed": {"demo_without_patch_rc": rc0, "demo_with_patch_rc": rc1, "import_ok": rci == 0,
                          "pinned_tests_with_patch": outt.strip().splitlines()[-1],
                          "ran": ["git worktree add <scratch>; %s (rc 0)" % runner, "git apply patch.diff", "cd <scratch> && PYTHONPATH=<scratch> /venv/bin/python -m pytest -q -p no:cacheprovider --timeout=900 --continue-on-collection-errors (92 passed, as on the unchanged tree)", "%s (rc != 0)" % runner, "git worktree remove --force <scratch>"]},
            "checks": caught, "demo_failure_tail": out1.strip().splitlines()[-3:]}
    json.dump(meta, open(os.path.join(dst, "meta.json"), "w"), indent=1)
    print("kept", dst)
    return 0
sys.exit(main())
