#!/usr/bin/env python3
"""
Confirm a behaviour-preserving refactoring produced by a sub-agent and keep it under /verif/refactors/<name>/.
  tools/keep_refactor.py C03 /tmp/seed/C03r/r1 C03-<slug> "<kind of rewrite>"
Confirms in a scratch worktree of /repo: patch applies, library imports, pinned suite still 92 passed, demo exits 0 WITHOUT and WITH the patch.
Then runs all 20 checks on a patched scratch copy: exit 1 anywhere = false alarm (printed, still stored so that the rule gets fixed);
exit 2 = cannot decide.
"""
import json, os, shutil, subprocess, sys, tempfile, glob, re
here = os.path.dirname(os.path.dirname(os.path.abspath(__file__)))
PY = "/venv/bin/python"
ALL = ["C%02d" % i for i in range(1, 21)]
def sh(cmd, cwd=None, env=None, timeout=3600):
    r = subprocess.run(cmd, shell=True, cwd=cwd, env=env, capture_output=True, text=True, timeout=timeout)
    return r.returncode, (r.stdout + r.stderr)
def checks_on_patch(patch):
    tmp = tempfile.mkdtemp(prefix="refac_", dir="/tmp")
    try:
        shutil.copytree("/repo/pybrops", os.path.join(tmp, "pybrops"), ignore=shutil.ignore_patterns("__pycache__"))
        r = subprocess.run(["patch", "-p1", "-s", "--no-backup-if-mismatch", "-i", patch], cwd=tmp, capture_output=True, text=True)
        if r.returncode:
            return {"error": "patch does not apply: " + (r.stdout + r.stderr)[-200:]}
        out = {}
        known = json.load(open(os.path.join(here, "known_findings.json")))["findings"]
        procs = {}
        # the first check builds and caches the program model of the patched tree; the other 19 then load it
        env0 = dict(os.environ, VERIF_REPO=tmp, VERIF_EVID_DIR=os.path.join(tmp, "ev_" + ALL[0]))
        pr0 = subprocess.Popen([os.path.join(here, "check"), ALL[0]], env=env0, stdout=subprocess.PIPE, stderr=subprocess.STDOUT, text=True)
        txt0 = pr0.communicate()[0]
        out[ALL[0]] = {"rc": pr0.returncode, "lines": [l for l in txt0.splitlines() if l.startswith(("VIOLATION", "ANALYSIS-ERROR", "  pybrops"))][:8]}
        for cid in ALL[1:]:
            env = dict(os.environ, VERIF_REPO=tmp, VERIF_EVID_DIR=os.path.join(tmp, "ev_" + cid))
            procs[cid] = subprocess.Popen([os.path.join(here, "check"), cid], env=env, stdout=subprocess.PIPE, stderr=subprocess.STDOUT, text=True)
        for cid, pr in procs.items():
            txt = pr.communicate()[0]
            lines = [l for l in txt.splitlines() if l.startswith(("VIOLATION", "ANALYSIS-ERROR", "  pybrops"))]
            out[cid] = {"rc": pr.returncode, "lines": lines[:8]}
        return out
    finally:
        shutil.rmtree(tmp, ignore_errors=True)
def main():
    prop, src, name = sys.argv[1:4]
    kind = sys.argv[4] if len(sys.argv) > 4 else ""
    wt = tempfile.mkdtemp(prefix="confirm_", dir="/tmp"); os.rmdir(wt)
    rc, out = sh("git -C /repo worktree add --detach -f %s HEAD" % wt)
    assert rc == 0, out
    try:
        demo = os.path.join(src, "demo.py")
        env = dict(os.environ, PYTHONPATH=wt)
        rc0, out0 = sh(PY + " " + demo, cwd=wt, env=env)
        rcp, outp = sh("git apply %s" % os.path.join(src, "patch.diff"), cwd=wt)
        assert rcp == 0, "patch does not apply: " + outp
        rci, outi = sh(PY + " -c 'import numpy; numpy.float_=numpy.float64; import pybrops'", cwd=wt, env=env)
        rct, outt = sh(PY + " -m pytest -q -p no:cacheprovider --timeout=900 --continue-on-collection-errors 2>&1 | tail -3", cwd=wt, env=env)
        rc1, out1 = sh(PY + " " + demo, cwd=wt, env=env)
        files = sh("git diff --name-only", cwd=wt)[1].split()
    finally:
        sh("git -C /repo worktree remove --force %s" % wt)
    same = out0.strip().splitlines()[-3:] == out1.strip().splitlines()[-3:]
    print("demo without rc=%d ; with rc=%d ; import rc=%d ; tests: %s ; last lines identical: %s" % (rc0, rc1, rci, outt.strip().splitlines()[-1] if outt.strip() else "?", same))
    if not (rc0 == 0 and rc1 == 0 and rci == 0 and "92 passed" in outt):
        print("NOT CONFIRMED"); print(out0[-600:]); print(out1[-600:]); return 1
    res = checks_on_patch(os.path.join(src, "patch.diff"))
    alarms = [c for c, v in res.items() if isinstance(v, dict) and v.get("rc") == 1]
    undec = [c for c, v in res.items() if isinstance(v, dict) and v.get("rc") == 2]
    for c in alarms + undec:
        print(c, "rc", res[c]["rc"]); print("\n".join(l[:300] for l in res[c]["lines"][:6]))
    dst = os.path.join(here, "refactors", name)
    os.makedirs(dst, exist_ok=True)
    for fn in ("patch.diff", "demo.py", "notes.md"):
        if os.path.exists(os.path.join(src, fn)): shutil.copy(os.path.join(src, fn), dst)
    json.dump({"property": prop, "kind": kind, "files": files, "confirmed": {"demo_without_rc": rc0, "demo_with_rc": rc1, "outputs_identical_tail": same,
               "pinned_tests_with_patch": outt.strip().splitlines()[-1]}, "checks_at_arrival": {c: v["rc"] for c, v in res.items() if isinstance(v, dict) and "rc" in v},
               "false_alarms_at_arrival": alarms, "undecided_at_arrival": undec}, open(os.path.join(dst, "meta.json"), "w"), indent=1)
    print("kept", dst, "| false alarms:", alarms, "| undecided:", undec)
    return 0
sys.exit(main())
