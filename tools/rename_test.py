#!/usr/bin/env python3
"""
Behaviour-preserving-edit self-test (development tool, not registered in MANIFEST).

Builds a scratch copy of /repo/pybrops in which EVERY function has its local variables consistently renamed
(<name> -> <name><suffix>; parameters, attributes, globals and keyword names are untouched) and the source is
re-emitted by ast.unparse (so comments, layout and line numbers change too), then runs the 20 checks on it.
The renamed package is semantically identical, so a check that exits 1 on it has a rule that keys on a local
variable name or on source text: a false alarm in waiting.  Exit 2 (ANALYSIS-ERROR) is reported separately: it is
the honest "cannot decide", not an alarm.

  tools/rename_test.py [--suffix _rn] [--tier quick] [Cnn ...]
"""
import ast
import concurrent.futures as cf
import os
import re
import shutil
import subprocess
import sys
import tempfile

here = os.path.dirname(os.path.dirname(os.path.abspath(__file__)))
ALL = ["C%02d" % i for i in range(1, 21)]


class NpAlias(ast.NodeTransformer):
    """`import numpy` -> `import numpy as np`, every `numpy.` -> `np.` (module by module, when `np` is free)"""

    def __init__(self):
        self.count = 0

    def visit_Module(self, node):
        names = {n.id for n in ast.walk(node) if isinstance(n, ast.Name)} | {a.arg for n in ast.walk(node) if isinstance(n, ast.arguments) for a in n.args + n.kwonlyargs + n.posonlyargs}
        plain = [n for n in ast.walk(node) if isinstance(n, ast.Import) and any(a.name == "numpy" and a.asname is None for a in n.names)]
        if not plain or "np" in names:
            return node
        # `import numpy.x` style imports bind `numpy` too: leave such modules alone
        if any(isinstance(n, ast.Import) and any(a.name.startswith("numpy.") and a.asname is None for a in n.names) for n in ast.walk(node)):
            return node
        for n in plain:
            for a in n.names:
                if a.name == "numpy":
                    a.asname = "np"
        for n in ast.walk(node):
            if isinstance(n, ast.Name) and n.id == "numpy":
                n.id = "np"
                self.count += 1
        return node


class Extractor(ast.NodeTransformer):
    """`return <expr>` -> `_xt = <expr>; return _xt` and `x[..] = <expr>` / `o.a = <expr>` -> `_xt = <expr>; x[..] = _xt`"""

    def __init__(self):
        self.count = 0
        self.k = 0

    def _fresh(self):
        self.k += 1
        return "_xt%d" % self.k

    def _block(self, stmts):
        out = []
        for st in stmts:
            st = self.generic_visit(st) if not isinstance(st, (ast.FunctionDef, ast.AsyncFunctionDef, ast.ClassDef)) else self.visit(st)
            if isinstance(st, ast.Return) and st.value is not None and not isinstance(st.value, (ast.Name, ast.Constant)):
                t = self._fresh()
                out.append(ast.Assign(targets=[ast.Name(id=t, ctx=ast.Store())], value=st.value, lineno=st.lineno, col_offset=0))
                st.value = ast.Name(id=t, ctx=ast.Load())
                self.count += 1
            elif isinstance(st, ast.Assign) and len(st.targets) == 1 and isinstance(st.targets[0], (ast.Subscript, ast.Attribute)) \
                    and not isinstance(st.value, (ast.Name, ast.Constant)):
                t = self._fresh()
                out.append(ast.Assign(targets=[ast.Name(id=t, ctx=ast.Store())], value=st.value, lineno=st.lineno, col_offset=0))
                st.value = ast.Name(id=t, ctx=ast.Load())
                self.count += 1
            out.append(st)
        return out

    def generic_visit(self, node):
        for fld in ("body", "orelse", "finalbody"):
            v = getattr(node, fld, None)
            if isinstance(v, list) and v and isinstance(v[0], ast.stmt):
                setattr(node, fld, self._block(v))
        if isinstance(node, ast.Try):
            for h in node.handlers:
                h.body = self._block(h.body)
        return node

    def visit_Module(self, node):
        # only inside functions: module / class level temporaries would become attributes
        for n in ast.walk(node):
            if isinstance(n, (ast.FunctionDef, ast.AsyncFunctionDef)):
                pass
        return self._walk_defs(node)

    def _walk_defs(self, node):
        for i, st in enumerate(getattr(node, "body", [])):
            if isinstance(st, (ast.FunctionDef, ast.AsyncFunctionDef)):
                self.k = 0
                st.body = self._block(st.body)
            elif isinstance(st, ast.ClassDef):
                self._walk_defs(st)
        return node

    def visit_FunctionDef(self, node):
        node.body = self._block(node.body)
        return node

    visit_AsyncFunctionDef = visit_FunctionDef

    def visit_ClassDef(self, node):
        return self._walk_defs(node)


def _terminal(stmts):
    return bool(stmts) and isinstance(stmts[-1], (ast.Return, ast.Raise, ast.Continue, ast.Break))


class IfShaper(ast.NodeTransformer):
    """unelse: `if c: ..return.. else: B` -> `if c: ..return..` + B;  negif: `if c: A else: B` -> `if not c: B else: A`"""

    def __init__(self, mode):
        self.mode = mode
        self.count = 0

    def _block(self, stmts):
        out = []
        for st in stmts:
            st = self.visit(st)
            if isinstance(st, ast.If) and st.orelse:
                if self.mode == "unelse" and _terminal(st.body):
                    rest = st.orelse
                    st.orelse = []
                    out.append(st)
                    out.extend(rest)
                    self.count += 1
                    continue
                if self.mode == "negif" and not (len(st.orelse) == 1 and isinstance(st.orelse[0], ast.If)):
                    st.test = ast.UnaryOp(op=ast.Not(), operand=st.test)
                    st.body, st.orelse = st.orelse, st.body
                    self.count += 1
            out.append(st)
        return out

    def generic_visit(self, node):
        super().generic_visit(node)
        for fld in ("body", "orelse", "finalbody"):
            v = getattr(node, fld, None)
            if isinstance(v, list) and v and isinstance(v[0], ast.stmt):
                setattr(node, fld, self._block_noreenter(v))
        return node

    def _block_noreenter(self, stmts):
        out = []
        for st in stmts:
            if isinstance(st, ast.If) and st.orelse:
                if self.mode == "unelse" and _terminal(st.body):
                    rest = st.orelse
                    st.orelse = []
                    out.append(st)
                    out.extend(rest)
                    self.count += 1
                    continue
                if self.mode == "negif" and not (len(st.orelse) == 1 and isinstance(st.orelse[0], ast.If)) and not getattr(st, "_neg", False):
                    st.test = ast.UnaryOp(op=ast.Not(), operand=st.test)
                    st.body, st.orelse = st.orelse, st.body
                    st._neg = True
                    self.count += 1
                NEG = {ast.Eq: ast.NotEq, ast.NotEq: ast.Eq, ast.Is: ast.IsNot, ast.IsNot: ast.Is, ast.In: ast.NotIn, ast.NotIn: ast.In}
                if self.mode == "negcmp" and not (len(st.orelse) == 1 and isinstance(st.orelse[0], ast.If)) and not getattr(st, "_neg", False) \
                        and isinstance(st.test, ast.Compare) and len(st.test.ops) == 1 and type(st.test.ops[0]) in NEG:
                    st.test.ops = [NEG[type(st.test.ops[0])]()]
                    st.body, st.orelse = st.orelse, st.body
                    st._neg = True
                    self.count += 1
            out.append(st)
        return out


class Stripper(ast.NodeTransformer):
    """remove every docstring and every annotation (parameters, returns, annotated assignments without value are dropped)"""

    def __init__(self):
        self.count = 0

    def _strip_doc(self, node):
        b = node.body
        if b and isinstance(b[0], ast.Expr) and isinstance(b[0].value, ast.Constant) and isinstance(b[0].value.value, str):
            node.body = b[1:] or [ast.Pass()]
            self.count += 1

    def visit_Module(self, node):
        self._strip_doc(node)
        self.generic_visit(node)
        return node

    def visit_ClassDef(self, node):
        self._strip_doc(node)
        self.generic_visit(node)
        return node

    def visit_FunctionDef(self, node):
        self._strip_doc(node)
        node.returns = None
        for a in node.args.args + node.args.kwonlyargs + node.args.posonlyargs + [x for x in (node.args.vararg, node.args.kwarg) if x]:
            if a.annotation is not None:
                a.annotation = None
                self.count += 1
        self.generic_visit(node)
        return node

    visit_AsyncFunctionDef = visit_FunctionDef

    def visit_AnnAssign(self, node):
        self.generic_visit(node)
        if node.value is None:
            return ast.Pass() if isinstance(node.target, ast.Name) else node
        self.count += 1
        return ast.Assign(targets=[node.target], value=node.value)


class NpAxis(ast.NodeTransformer):
    """numpy.f(a, axis=k) -> numpy.f(a, k) and a.f(axis=k) -> a.f(k) for the reductions whose second (first) parameter is axis"""

    RED = ("sum", "mean", "any", "all", "max", "min", "amax", "amin", "prod", "std", "var", "nansum", "nanmean", "nanmax", "nanmin", "nanstd", "nanvar",
           "argmax", "argmin", "cumsum", "median", "ptp", "count_nonzero")

    def __init__(self, to_kw=False):
        self.count = 0
        self.to_kw = to_kw

    def visit_Call(self, node):
        self.generic_visit(node)
        f = node.func
        if self.to_kw:
            if isinstance(f, ast.Attribute) and f.attr in self.RED and not any(isinstance(a, ast.Starred) for a in node.args) and not any(k.arg == "axis" for k in node.keywords):
                is_np = isinstance(f.value, ast.Name) and f.value.id in ("numpy", "np")
                if is_np and len(node.args) == 2:
                    node.keywords.insert(0, ast.keyword(arg="axis", value=node.args.pop()))
                    self.count += 1
                elif not is_np and len(node.args) == 1 and f.attr in ("sum", "mean", "any", "all", "max", "min", "prod", "std", "var", "argmax", "argmin", "cumsum") \
                        and not isinstance(f.value, ast.Constant):
                    node.keywords.insert(0, ast.keyword(arg="axis", value=node.args.pop()))
                    self.count += 1
            return node
        if isinstance(f, ast.Attribute) and f.attr in self.RED and node.keywords and node.keywords[0].arg == "axis" \
                and not any(isinstance(a, ast.Starred) for a in node.args):
            is_np = isinstance(f.value, ast.Name) and f.value.id in ("numpy", "np")
            if (is_np and len(node.args) == 1) or (not is_np and len(node.args) == 0 and f.attr not in ("count_nonzero", "median", "amax", "amin") and not f.attr.startswith("nan")):
                node.args.append(node.keywords[0].value)
                node.keywords = node.keywords[1:]
                self.count += 1
        return node


class DefSorter(ast.NodeTransformer):
    """methods of every class re-ordered alphabetically among the positions methods occupy (stable: a property's getter stays before its setter)"""

    def __init__(self):
        self.count = 0

    def visit_ClassDef(self, node):
        self.generic_visit(node)
        slots = [i for i, s in enumerate(node.body) if isinstance(s, (ast.FunctionDef, ast.AsyncFunctionDef))]
        defs = sorted((node.body[i] for i in slots), key=lambda d: d.name)
        for i, d in zip(slots, defs):
            if node.body[i] is not d:
                self.count += 1
            node.body[i] = d
        return node


def _names(e, ctxs):
    return {n.id for n in ast.walk(e) if isinstance(n, ast.Name) and isinstance(n.ctx, ctxs)}


class SwapIndep(ast.NodeTransformer):
    """two adjacent assignments `a = e1 ; b = e2` to plain names with call-free right-hand sides that do not mention each other's target are exchanged"""

    def __init__(self):
        self.count = 0

    def _simple(self, st):
        return isinstance(st, ast.Assign) and len(st.targets) == 1 and isinstance(st.targets[0], ast.Name) \
            and not any(isinstance(n, (ast.Call, ast.Subscript, ast.Lambda, ast.ListComp, ast.GeneratorExp, ast.DictComp, ast.SetComp, ast.NamedExpr, ast.Await, ast.Yield)) for n in ast.walk(st.value))

    def generic_visit(self, node):
        super().generic_visit(node)
        if not isinstance(node, (ast.FunctionDef, ast.AsyncFunctionDef, ast.For, ast.While, ast.If, ast.With, ast.Try)):
            return node
        for fld in ("body", "orelse", "finalbody"):
            blk = getattr(node, fld, None)
            if not (isinstance(blk, list) and blk and isinstance(blk[0], ast.stmt)):
                continue
            i = 0
            while i + 1 < len(blk):
                a, b = blk[i], blk[i + 1]
                if self._simple(a) and self._simple(b):
                    ta, tb = a.targets[0].id, b.targets[0].id
                    if ta != tb and ta not in _names(b.value, ast.Load) and tb not in _names(a.value, ast.Load):
                        blk[i], blk[i + 1] = b, a
                        self.count += 1
                        i += 2
                        continue
                i += 1
        return node


class JoinTuple(SwapIndep):
    """two adjacent independent assignments `a = e1 ; b = e2` (same conditions as swapindep) are written as one tuple assignment `a, b = e1, e2`"""

    def generic_visit(self, node):
        ast.NodeTransformer.generic_visit(self, node)
        if not isinstance(node, (ast.FunctionDef, ast.AsyncFunctionDef, ast.For, ast.While, ast.If, ast.With, ast.Try)):
            return node
        for fld in ("body", "orelse", "finalbody"):
            blk = getattr(node, fld, None)
            if not (isinstance(blk, list) and blk and isinstance(blk[0], ast.stmt)):
                continue
            out = []
            i = 0
            while i < len(blk):
                a = blk[i]
                b = blk[i + 1] if i + 1 < len(blk) else None
                if b is not None and self._simple(a) and self._simple(b):
                    ta, tb = a.targets[0].id, b.targets[0].id
                    if ta != tb and ta not in _names(b.value, ast.Load) and tb not in _names(a.value, ast.Load):
                        out.append(ast.Assign(targets=[ast.Tuple(elts=[a.targets[0], b.targets[0]], ctx=ast.Store())], value=ast.Tuple(elts=[a.value, b.value], ctx=ast.Load()),
                                              lineno=a.lineno, col_offset=a.col_offset))
                        self.count += 1
                        i += 2
                        continue
                out.append(a)
                i += 1
            setattr(node, fld, out)
        return node


class KwPerm(ast.NodeTransformer):
    """keyword arguments of a call whose argument expressions are all names / attributes / constants are written in reverse order"""

    def __init__(self):
        self.count = 0

    def visit_Call(self, node):
        self.generic_visit(node)
        if len(node.keywords) >= 2 and all(k.arg is not None for k in node.keywords) \
                and all(not any(isinstance(n, (ast.Call, ast.Subscript, ast.NamedExpr, ast.Lambda, ast.Await)) for n in ast.walk(k.value)) for k in node.keywords) \
                and all(not any(isinstance(n, (ast.Call, ast.NamedExpr)) for n in ast.walk(a)) for a in node.args):
            node.keywords = list(reversed(node.keywords))
            self.count += 1
        return node


class TrimSlice(ast.NodeTransformer):
    """x[i, :] -> x[i] and x[i, j, :] -> x[i, j] (a trailing full slice of a numpy subscript selects nothing)"""

    def __init__(self):
        self.count = 0

    def visit_Subscript(self, node):
        self.generic_visit(node)
        sl = node.slice
        if isinstance(sl, ast.Tuple) and len(sl.elts) >= 2:
            def full(e):
                return isinstance(e, ast.Slice) and e.lower is None and e.upper is None and e.step is None
            elts = list(sl.elts)
            if full(elts[-1]) and not any(isinstance(e, ast.Constant) and e.value is Ellipsis for e in elts) \
                    and not any(isinstance(e, ast.Constant) and e.value is None for e in elts):
                while len(elts) > 1 and full(elts[-1]):
                    elts.pop()
                node.slice = elts[0] if len(elts) == 1 else ast.Tuple(elts=elts, ctx=ast.Load())
                self.count += 1
        return node


class SplitTuple(ast.NodeTransformer):
    """a, b = x, y  ->  a = x ; b = y when no right-hand side mentions a target, contains a call or a subscript"""

    def __init__(self):
        self.count = 0

    def generic_visit(self, node):
        super().generic_visit(node)
        for fld in ("body", "orelse", "finalbody"):
            blk = getattr(node, fld, None)
            if not (isinstance(blk, list) and blk and isinstance(blk[0], ast.stmt)):
                continue
            out = []
            for st in blk:
                if isinstance(st, ast.Assign) and len(st.targets) == 1 and isinstance(st.targets[0], ast.Tuple) and isinstance(st.value, ast.Tuple) \
                        and len(st.targets[0].elts) == len(st.value.elts) and all(isinstance(t, ast.Name) for t in st.targets[0].elts):
                    tg = {t.id for t in st.targets[0].elts}
                    if len(tg) == len(st.value.elts) and not any(isinstance(n, (ast.Call, ast.NamedExpr)) or (isinstance(n, ast.Name) and n.id in tg) for v in st.value.elts for n in ast.walk(v)):
                        for t, v in zip(st.targets[0].elts, st.value.elts):
                            out.append(ast.Assign(targets=[t], value=v, lineno=st.lineno, col_offset=st.col_offset))
                        self.count += 1
                        continue
                out.append(st)
            setattr(node, fld, out)
        return node


class Commuter(ast.NodeTransformer):
    """behaviour-preserving rewrites of expressions: a * b -> b * a (numbers / arrays / sequence repetition commute), a < b -> b > a, a == b -> b == a;
    positional arguments of calls to plain names are left alone.  Only inside function bodies."""

    def __init__(self):
        self.count = 0
        self.depth = 0

    def visit_FunctionDef(self, node):
        self.depth += 1
        self.generic_visit(node)
        self.depth -= 1
        return node

    visit_AsyncFunctionDef = visit_FunctionDef

    def visit_BinOp(self, node):
        self.generic_visit(node)
        if self.depth and isinstance(node.op, ast.Mult) and not isinstance(node.left, (ast.Constant, ast.List, ast.Tuple, ast.JoinedStr)) \
                and not isinstance(node.right, (ast.List, ast.Tuple, ast.JoinedStr)) and not (isinstance(node.right, ast.Constant) and isinstance(node.right.value, str)):
            node.left, node.right = node.right, node.left
            self.count += 1
        return node

    def visit_Compare(self, node):
        self.generic_visit(node)
        if self.depth and len(node.ops) == 1 and isinstance(node.ops[0], (ast.Lt, ast.LtE, ast.Gt, ast.GtE, ast.Eq, ast.NotEq)):
            flip = {ast.Lt: ast.Gt, ast.LtE: ast.GtE, ast.Gt: ast.Lt, ast.GtE: ast.LtE, ast.Eq: ast.Eq, ast.NotEq: ast.NotEq}
            # `x is None`-style and chained comparisons are untouched; constants on the left are legal python
            l, r = node.left, node.comparators[0]
            if isinstance(r, ast.Constant) and r.value is None:
                return node
            node.left, node.comparators, node.ops = r, [l], [flip[type(node.ops[0])]()]
            self.count += 1
        return node


class Inliner(ast.NodeTransformer):
    """t = <pure expression> ; <next statement using t exactly once, t used nowhere else>  ->  next statement with the expression in place of t"""

    PURE_CALLS = ("len", "range", "tuple", "list", "int", "float", "str", "abs", "min", "max", "isinstance")

    def __init__(self):
        self.count = 0

    def pure(self, e):
        for n in ast.walk(e):
            if isinstance(n, ast.Call):
                d = ast.unparse(n.func)
                if not (d in self.PURE_CALLS or d.startswith(("numpy.", "np.", "math."))) or d.startswith(("numpy.random", "np.random")) or d.endswith((".shuffle", ".sort")):
                    return False
            if isinstance(n, (ast.Yield, ast.YieldFrom, ast.Await, ast.NamedExpr, ast.Lambda, ast.ListComp, ast.GeneratorExp, ast.DictComp, ast.SetComp, ast.Starred)):
                return False
        return True

    def visit_FunctionDef(self, node):
        self.generic_visit(node)
        uses = {}
        stores = {}
        for n in ast.walk(node):
            if isinstance(n, ast.Name):
                if isinstance(n.ctx, ast.Load):
                    uses[n.id] = uses.get(n.id, 0) + 1
                else:
                    stores[n.id] = stores.get(n.id, 0) + 1
        params = {a.arg for a in node.args.args + node.args.kwonlyargs}
        for blk_owner in ast.walk(node):
            for fld in ("body", "orelse", "finalbody"):
                blk = getattr(blk_owner, fld, None)
                if not (isinstance(blk, list) and blk and isinstance(blk[0], ast.stmt)):
                    continue
                i = 0
                while i + 1 < len(blk):
                    a, b = blk[i], blk[i + 1]
                    if isinstance(a, ast.Assign) and len(a.targets) == 1 and isinstance(a.targets[0], ast.Name) and self.pure(a.value) \
                            and isinstance(b, (ast.Assign, ast.Return, ast.Expr, ast.AugAssign)):
                        t = a.targets[0].id
                        here_ = [n for n in ast.walk(b) if isinstance(n, ast.Name) and n.id == t and isinstance(n.ctx, ast.Load)]
                        stored_in_b = any(isinstance(n, ast.Name) and n.id == t and not isinstance(n.ctx, ast.Load) for n in ast.walk(b))
                        if t not in params and stores.get(t, 0) == 1 and uses.get(t, 0) == 1 and len(here_) == 1 and not stored_in_b \
                                and not any(isinstance(n, (ast.Lambda, ast.ListComp, ast.GeneratorExp, ast.DictComp, ast.SetComp)) for n in ast.walk(b)):
                            class Sub(ast.NodeTransformer):
                                def visit_Name(self_, n):
                                    return a.value if (n.id == t and isinstance(n.ctx, ast.Load)) else n
                            blk[i + 1] = Sub().visit(b)
                            del blk[i]
                            self.count += 1
                            continue
                    i += 1
        return node

    visit_AsyncFunctionDef = visit_FunctionDef


class KwCaller(ast.NodeTransformer):
    """f(a, b) -> f(x=a, y=b) for calls whose callee resolves inside the package (module-level functions by name, methods through self./cls.) and has no *args"""

    def __init__(self, prog, mod):
        self.prog, self.mod = prog, mod
        self.cls = None
        self.count = 0

    def visit_ClassDef(self, node):
        prev, self.cls = self.cls, self.mod.classes.get(node.name)
        self.generic_visit(node)
        self.cls = prev
        return node

    def visit_Call(self, node):
        self.generic_visit(node)
        from sa.model import FuncInfo
        if not node.args or any(isinstance(a, ast.Starred) for a in node.args):
            return node
        callee = None
        skip = 0
        if isinstance(node.func, ast.Name):
            t = self.prog.resolve_name(self.mod, node.func.id)
            if isinstance(t, FuncInfo):
                callee = t
        elif isinstance(node.func, ast.Attribute) and isinstance(node.func.value, ast.Name) and node.func.value.id in ("self", "cls") and self.cls is not None \
                and self.prog.mro(self.cls) is not None:
            t = self.prog.lookup_method(self.cls, node.func.attr)
            if isinstance(t, FuncInfo):
                callee = t
                skip = 0 if t.kind == "staticmethod" else 1
        if callee is None or callee.node.args.vararg is not None or callee.node.args.posonlyargs:
            return node
        pn = [a.arg for a in callee.node.args.args][skip:]
        if len(node.args) > len(pn) or any(k.arg in pn[:len(node.args)] for k in node.keywords if k.arg):
            return node
        node.keywords = [ast.keyword(arg=pn[i], value=a) for i, a in enumerate(node.args)] + list(node.keywords)
        node.args = []
        self.count += 1
        return node


class Renamer(ast.NodeTransformer):
    def __init__(self, suffix):
        self.suffix = suffix
        self.count = 0

    def visit_FunctionDef(self, node):
        # rename inside nested functions first (they have their own local sets)
        node.body = [self.visit(s) for s in node.body]
        params = {a.arg for a in node.args.args + node.args.kwonlyargs + node.args.posonlyargs}
        if node.args.vararg:
            params.add(node.args.vararg.arg)
        if node.args.kwarg:
            params.add(node.args.kwarg.arg)
        banned = set(params)
        nested_args = set()
        for n in ast.walk(node):
            if n is node:
                continue
            if isinstance(n, (ast.FunctionDef, ast.AsyncFunctionDef, ast.Lambda)):
                a = n.args
                nested_args |= {x.arg for x in a.args + a.kwonlyargs + a.posonlyargs}
                if a.vararg:
                    nested_args.add(a.vararg.arg)
                if a.kwarg:
                    nested_args.add(a.kwarg.arg)
            if isinstance(n, (ast.Global, ast.Nonlocal)):
                banned |= set(n.names)
            if isinstance(n, (ast.FunctionDef, ast.AsyncFunctionDef, ast.ClassDef)):
                banned.add(n.name)
            if isinstance(n, (ast.Import, ast.ImportFrom)):
                banned |= {(al.asname or al.name).split(".")[0] for al in n.names}
        banned |= nested_args
        stored = set()
        for n in ast.walk(node):
            if isinstance(n, ast.Name) and isinstance(n.ctx, (ast.Store, ast.Del)):
                stored.add(n.id)
            elif isinstance(n, ast.ExceptHandler) and n.name:
                banned.add(n.name)
        local = {x for x in stored if x not in banned and not x.endswith(self.suffix) and not (x.startswith("__") and x.endswith("__"))}
        if local:
            for n in ast.walk(node):
                if isinstance(n, ast.Name) and n.id in local:
                    n.id = n.id + self.suffix
                    self.count += 1
        return node

    visit_AsyncFunctionDef = visit_FunctionDef


class NestedRenamer(ast.NodeTransformer):
    """nested functions and lambdas: the function's name and its parameters get other names (calls by keyword keep a parameter's name)"""

    def __init__(self, suffix):
        self.suffix = suffix
        self.count = 0

    def _params(self, a):
        return [x for x in a.args + a.posonlyargs]

    def visit_FunctionDef(self, node):
        self.generic_visit(node)
        for g in [n for n in ast.walk(node) if n is not node and isinstance(n, (ast.FunctionDef, ast.Lambda))]:
            inner_defs = [n for n in ast.walk(g) if n is not g and isinstance(n, (ast.FunctionDef, ast.Lambda, ast.ClassDef))]
            if inner_defs or (isinstance(g, ast.FunctionDef) and g.decorator_list):
                continue
            name = g.name if isinstance(g, ast.FunctionDef) else None
            kwcalled = set()
            for c in ast.walk(node):
                if isinstance(c, ast.Call) and name and isinstance(c.func, ast.Name) and c.func.id == name:
                    kwcalled |= {k.arg for k in c.keywords if k.arg}
                    if any(k.arg is None for k in c.keywords):
                        kwcalled |= {x.arg for x in self._params(g.args)}
            # the function is handed on as a value (a callback called by keyword elsewhere): leave its parameter names alone
            passed = name and any(isinstance(n, ast.Name) and n.id == name and isinstance(n.ctx, ast.Load) for c in ast.walk(node) if isinstance(c, ast.Call)
                                  for n in list(c.args) + [k.value for k in c.keywords])
            ren = {} if passed else {x.arg: x.arg + self.suffix for x in self._params(g.args) if x.arg not in kwcalled and not x.arg.endswith(self.suffix) and x.arg not in ("self", "cls")}
            if isinstance(g, ast.Lambda):
                # a lambda stored in a keyword / attribute may be called by keyword from outside
                ren = {} if not ren else ren
            stored_in_g = {n.id for n in ast.walk(g) if isinstance(n, ast.Name) and isinstance(n.ctx, ast.Store)}
            for n in ast.walk(g):
                if isinstance(n, ast.Name) and n.id in ren:
                    n.id = ren[n.id]
                    self.count += 1
                elif isinstance(n, ast.arg) and n.arg in ren:
                    n.arg = ren[n.arg]
            if name and not passed and not name.endswith(self.suffix) and not any(isinstance(n, (ast.Global, ast.Nonlocal)) for n in ast.walk(node)):
                new = name + self.suffix
                for n in ast.walk(node):
                    if isinstance(n, ast.Name) and n.id == name:
                        n.id = new
                        self.count += 1
                g.name = new
        return node


DESCR = ("nested", "jointuple", "npalias", "extract", "unelse", "negif", "negcmp", "strip", "npaxis", "npaxiskw", "defsort", "swapindep", "kwperm", "trimslice", "splittuple")


def build(suffix, mode="rename"):
    tmp = tempfile.mkdtemp(prefix="rename_", dir="/tmp")
    prog = None
    if mode == "kwcalls":
        sys.path.insert(0, here)
        from sa.model import load_program
        prog = load_program()
    n_files = n_names = 0
    for root, dirs, files in os.walk("/repo/pybrops"):
        dirs[:] = [d for d in dirs if d != "__pycache__"]
        rel = os.path.relpath(root, "/repo")
        os.makedirs(os.path.join(tmp, rel), exist_ok=True)
        for fn in files:
            src = os.path.join(root, fn)
            dst = os.path.join(tmp, rel, fn)
            if not fn.endswith(".py"):
                shutil.copy(src, dst)
                continue
            text = open(src, encoding="utf-8").read()
            tree = ast.parse(text)
            if mode == "kwcalls":
                relp = os.path.relpath(src, "/repo")
                m_ = prog.by_relpath.get(relp)
                if m_ is None:
                    shutil.copy(src, dst)
                    continue
                r = KwCaller(prog, m_)
            elif mode == "inline":
                r = Inliner()
            elif mode == "npalias":
                r = NpAlias()
            elif mode == "jointuple":
                r = JoinTuple()
            elif mode == "nested":
                r = NestedRenamer(suffix)
            elif mode == "strip":
                r = Stripper()
            elif mode == "swapindep":
                r = SwapIndep()
            elif mode == "kwperm":
                r = KwPerm()
            elif mode == "trimslice":
                r = TrimSlice()
            elif mode == "splittuple":
                r = SplitTuple()
            elif mode == "npaxis":
                r = NpAxis()
            elif mode == "npaxiskw":
                r = NpAxis(to_kw=True)
            elif mode == "defsort":
                r = DefSorter()
            elif mode == "extract":
                r = Extractor()
            elif mode in ("unelse", "negif", "negcmp"):
                r = IfShaper(mode)
            else:
                r = Renamer(suffix) if mode == "rename" else Commuter()
            tree = r.visit(tree)
            ast.fix_missing_locations(tree)
            out = ast.unparse(tree)
            compile(out, dst, "exec")
            open(dst, "w", encoding="utf-8").write(out + "\n")
            n_files += 1
            n_names += r.count
    return tmp, n_files, n_names


def run_one(args):
    cid, tier, tmp = args
    import json
    env = dict(os.environ, VERIF_REPO=tmp, VERIF_EVID_DIR=os.path.join(tmp, "evidence_" + cid))
    r = subprocess.run([os.path.join(here, "check"), cid, "--tier", tier], env=env, capture_output=True, text=True)
    known = {(k["rule"], k["construct"]) for k in json.load(open(os.path.join(here, "known_findings.json")))["findings"] if k["property"] == cid}
    out = r.stdout.splitlines()
    lines = []
    new_viol = 0
    i = 0
    while i < len(out):
        l = out[i]
        if l.startswith("VIOLATION") and i + 1 < len(out):
            d = out[i + 1]
            m = re.match(r"\s+\S+ (R[\w-]+|C\d\d-R[\w-]+) (.*)", d)
            is_known = bool(m) and any(rule == m.group(1) and m.group(2).startswith(c + ":") for rule, c in known)
            if not is_known:
                new_viol += 1
                lines += [l, d]
            i += 2
            continue
        if l.startswith("ANALYSIS-ERROR"):
            lines.append(l)
        i += 1
    rc = r.returncode
    if rc == 1 and new_viol == 0:
        rc = 0 if not any(x.startswith("ANALYSIS-ERROR") for x in lines) else 2      # only known findings whose detail text carries (renamed) local names
    return cid, rc, lines


def main():
    argv = sys.argv[1:]
    suffix = argv[argv.index("--suffix") + 1] if "--suffix" in argv else "_rn"
    tier = argv[argv.index("--tier") + 1] if "--tier" in argv else "quick"
    ids = [a for a in argv if re.fullmatch(r"C\d\d", a)] or ALL
    mode = argv[argv.index("--mode") + 1] if "--mode" in argv else "rename"
    tmp, nf, nn = build(suffix, mode)
    if mode == "rename":
        print("renamed copy: %d files, %d local-name occurrences renamed (suffix %s), re-emitted by ast.unparse" % (nf, nn, suffix))
    elif mode == "inline":
        print("inlined copy: %d files, %d single-use pure temporaries substituted into the statement that follows them, re-emitted by ast.unparse" % (nf, nn))
    elif mode in DESCR:
        print("%s copy: %d files, %d sites rewritten (%s), re-emitted by ast.unparse" % (mode, nf, nn, {"jointuple": "adjacent independent assignments joined into one tuple assignment", "nested": "nested functions / lambdas and their positional parameters renamed", "strip": "docstrings and annotations removed", "swapindep": "adjacent independent call-free assignments exchanged", "kwperm": "keyword arguments written in reverse order", "trimslice": "trailing full slices dropped from subscripts", "splittuple": "tuple assignments of independent values split", "npaxis": "axis= keyword of numpy reductions made positional", "npaxiskw": "positional axis of numpy reductions made a keyword", "defsort": "methods re-ordered alphabetically", "npalias": "import numpy -> import numpy as np, numpy.x -> np.x", "extract": "returned / stored expressions moved into a fresh temporary", "unelse": "else branch after a terminal if-body de-nested", "negif": "if c: A else: B -> if not c: B else: A", "negcmp": "if a == b: A else: B -> if a != b: B else: A (also is / in)"}[mode]))
    elif mode == "kwcalls":
        print("keyword-call copy: %d files, %d calls of package functions / own methods rewritten from positional to keyword arguments, re-emitted by ast.unparse" % (nf, nn))
    else:
        print("commuted copy: %d files, %d products / comparisons with their operands exchanged (a*b -> b*a, a<b -> b>a), re-emitted by ast.unparse" % (nf, nn))
    try:
        bad = unk = 0
        with cf.ProcessPoolExecutor(max_workers=min(16, os.cpu_count() or 4)) as ex:
            for cid, rc, lines in ex.map(run_one, [(c, tier, tmp) for c in ids]):
                status = {0: "ok", 1: "FALSE ALARM (exit 1)", 2: "cannot decide (exit 2)"}.get(rc, "rc %d" % rc)
                print("%s  %s" % (cid, status))
                if rc == 1:
                    bad += 1
                if rc == 2:
                    unk += 1
                if rc:
                    for l in lines[:8]:
                        print("     " + l[:260])
        print("\nRENAME-TEST %s: %d checks, %d false alarms, %d undecided" % ("OK" if not bad else "FAILED", len(ids), bad, unk))
        return 1 if bad else 0
    finally:
        shutil.rmtree(tmp, ignore_errors=True)


if __name__ == "__main__":
    sys.exit(main())
