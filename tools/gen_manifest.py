#!/usr/bin/env python3
"""Regenerates /verif/MANIFEST.json from the table below (run by hand after adding a rule set)."""
import json
import os

HERE = os.path.dirname(os.path.dirname(os.path.abspath(__file__)))
ALL = ["C%02d" % i for i in range(1, 21)]
WIRED = ("C01", "C03", "C04", "C05", "C06", "C07", "C11", "C12", "C13", "C14", "C15", "C20")   # keys of sa.ctorflow.WIRING

# id -> (technique, level text, level note, design_ref)
CLAIMS = {
    "C20": (
        "order automaton over all CFG paths + keyword/target agreement + who-may-write/read rule (ast)",
        "Decides the whole call protocol structurally: every control-flow path through one iteration of advance()/evolve() is "
        "the required event word (operators, logs, clock tick exactly once, in order); every operator/log call receives the "
        "same-named state attributes and its result is unpacked in the canonical order; reset() deep-copies every start container; "
        "start_* is stored only by __init__/initialize/setters and read only as a deepcopy argument or None test. Because operators "
        "are reachable only through these call sites, this holds for all replicate/generation counts and all operator implementations.",
        "Trusted: CPython ast; copy.deepcopy semantics; operators/logbooks are black boxes (their internals are not part of the property).",
        "DESIGN.md §4 C20"),
    "C08": (
        "generator-flow analysis: entropy-source whitelist, receiver-origin dataflow for every draw, rng= forwarding at resolved "
        "call sites, call-graph reachability (ast + own call resolution with C3 MRO/CHA)",
        "Decides which entropy sources any stochastic API can touch, for all seeds and call sequences: no unseeded generator "
        "creation anywhere in the package, prng.seed() seeds python then numpy from it, every external stochastic optimiser gets a seed "
        "from the component's generator, every component (class with rng property / function with rng parameter) defaults None->global only, "
        "stores the generator it is given, forwards it to every rng-accepting callee and performs no global-stream draw in its own or "
        "reachable code. Bit-identity of numpy/pymoo for equal seeds is the trusted base, so this is the structural part of the "
        "reproducibility/isolation property, not an execution of it.",
        "Trusted: numpy/pymoo are deterministic given their seed (pymoo 0.6.2 source read: default_rng(seed)); call resolution is own "
        "(no type checker available): unresolved method calls are not followed, so reachability is an under-approximation; "
        "known findings: pymoo_addon operators, DEAP legacy optimiser, Random*SelectionProblem.from_object and apply_jitter draw from the global stream.",
        "DESIGN.md §4 C08"),
}

CLAIMS["C03"] = (
    "field-flow analysis: symbolic evaluation of every structural method per concrete class with super()/self inlining along the C3 MRO; "
    "signature comparison across parallel fields, twins and siblings; typestate of group metadata; dispatch agreement (ast)",
    "Decides structurally, for every concrete labelled matrix class (21 in quick tier, 25 in thorough), that each structural "
    "operation transforms the data and EVERY label array of the edited axis with the same numpy primitive, the same unmodified index operand "
    "and the right axis, passes the other axes' labels and group metadata through by name, stores nothing to self when non-mutating, "
    "performs no in-place element store into shared label arrays, resets (or recomputes from the sorted group array) the group metadata "
    "whenever an axis layout changes, and that the axis-generic methods dispatch to exactly the axis-specific ones with all arguments forwarded. "
    "Since every operation history is a composition of these methods and each preserves the label-data alignment invariant, the "
    "property follows for all histories; numpy's own semantics are trusted.",
    "Trusted: numpy take/delete/insert/append/concatenate/fancy-index semantics; CPython ast. Known findings (recorded, not repaired): "
    "square-axis insert/incorp/concat act on one axis; square taxa x trait family drops the other axis' labels in non-mutating ops; "
    "breeding-value matrices inherit mutators that bypass re-standardisation. Variance/covariance families with data-dependent axis "
    "properties are analysed through their base classes only.",
    "DESIGN.md §4 C03")

CLAIMS["C16"] = (
    "writer/reader table agreement per concrete class through the MRO, path rule over the HDF5 dictionary writer, keyword/attribute "
    "agreement and deep-copy wrapping for every __copy__/__deepcopy__, option liveness and by-name forwarding for csv/pandas wrappers, "
    "record-loop lockstep for VCF import (ast)",
    "Decides the structural half of the round-trip property: for 59 concrete classes the key set written by to_hdf5 equals the key set "
    "read by from_hdf5 (resolved through super() delegation), every value is the same-named attribute, string fields use the utf-8 reader, "
    "every read reaches the same-named constructor keyword/attribute and every stored constructor parameter is persisted; every path through "
    "h5py_File_write_dict replaces, deletes or recurses for each key (so the file equals the last object written); all 50 copy methods pass "
    "every constructor parameter and all group metadata from the same-named attribute and __deepcopy__ deep-copies every mutable field; "
    "csv wrappers forward every option by name and no IO option is dead; VCF import appends CHROM/POS/ID/calls in lockstep and takes calls as "
    "genotypes[:,0:2] transposed to (phase,taxa,variant). Value equality through h5py/pandas/cyvcf2 is trusted, not decided.",
    "Trusted: h5py / pandas / cyvcf2 semantics, utf-8 encoding of object arrays. The pandas column-name agreement between to_pandas and "
    "from_pandas is only covered through option liveness/forwarding. Known findings: G_E_Phenotyping deep copy shares rng; "
    "DenseBreedingValueMatrix.from_pandas ignores location/scale; DenseScaledSquareTaxaTraitMatrix copies drop group metadata.",
    "DESIGN.md §4 C16")

CLAIMS["C01"] = (
    "template verification of the meiosis kernel (store provenance, cursor tiling invariant) + abstract interpretation of the seven mate() "
    "bodies in a cross-identity algebra (pedigree term, per-cross expansion sequences) compared with a pedigree table + keyword/def-use rules + in-place update (may-alias) analysis of the arguments (ast)",
    "Decides Mendelian fidelity structurally for all inputs: every store into a gamete is geno[phase, s, same slice] of the selected parent; "
    "the cursor invariant shows each marker is written exactly once left to right and the source copy can change only at indices where "
    "rnd < xoprob (strict); mat_mate stacks (female, male) gametes from (fgeno,fsel)/(mgeno,msel) and mat_dh stacks one gamete twice; "
    "each protocol's mate() evaluates to the documented pedigree term; the two selections of every mat_mate call, the final genotype rows "
    "and the family labels carry equal per-cross expansion sequences equal to nmating*nprogeny; names/counters, all marker metadata and "
    "read-only parents are checked by name. No rule depends on a runtime value, so the result holds for every genotype, configuration, count "
    "vector, selfing depth and generator state.",
    "Trusted: numpy.repeat / arange / stack / flatnonzero (sorted output) semantics; the pedigree table is transcribed from the protocols' "
    "docstrings. A re-implementation of the kernel in another shape (e.g. vectorised) is reported as unrecognised (exit 2), not as a verdict.",
    "DESIGN.md §4 C01")
CLAIMS["C02"] = (
    "template verification of the meiosis kernel + formula normalisation of the map functions (limit at +inf) + assignment-chain order rule (ast, own algebraic normal form)",
    "Decides only the structural necessary conditions of the distributional statement - those without which the output distribution is wrong for "
    "every generator stream: one independent U[0,1) number per (gamete, marker) from the supplied generator, row i for gamete i; full-row, "
    "unshifted, strict comparison with xoprob; exactly one toggle per crossover index after the copy; xoprob assigned as "
    "mapfn(sequential distance of freshly interpolated positions) with +inf at every chromosome start and mapfn(+inf) = 1/2; every meiosis call "
    "of the seven protocols receives pgmat.vrnt_xoprob and self.rng. Convergence of realised recombination fractions is NOT decided by any "
    "static argument in reach.",
    "Trusted: numpy's uniform sampler is U[0,1) i.i.d.; numpy.unique on a grouped (sorted) chromosome vector yields the run starts. "
    "Every distributional limit in the statement is outside this check.",
    "DESIGN.md §4 C02")
CLAIMS["C11"] = (
    "spec congruence through an algebraic normal form (rational-function normaliser with inverse-pair and limit tables) + template rules for distance, "
    "interpolation, ordering and probability assignment in both genetic-map classes (ast)",
    "Decides: mapfn / invmapfn normalise to the Haldane / Kosambi formulas, invmapfn(mapfn(d)) normalises to d, mapfn(0)=0, mapfn(+inf)=1/2, and "
    "rprob{1,2}{g,p} = mapfn(gdist of the same arguments); sequential distance writes +inf at every run start and the first difference inside the "
    "run over complete runs from unique(chrgrp); pairwise distance is |gi-gj| of one vector meshed 'ij' with +inf where the identically laid out "
    "chromosome mesh differs (symmetric, zero diagonal by construction); splines use one mask for x and y and are not assumed sorted; every query "
    "is written, NaN on KeyError; default sort keys end in the chromosome; reorder/remove/select apply one index to all arrays and reset/recompute "
    "the grouping; interp_xoprob requires grouping and computes xoprob from the freshly interpolated positions.",
    "Trusted: scipy interp1d (linearity, extrapolation), numpy meshgrid/unique/lexsort semantics; monotonicity and additivity follow from the "
    "formulas for exact arithmetic and are not explored numerically.",
    "DESIGN.md §4 C11")

CLAIMS["C17"] = (
    "pairing / termination rule over all paths of the exchange search, tiling rule, spec congruence of pointer spacing through an algebraic "
    "normal form, index-space typing, slice-generator agreement (ast)",
    "Decides the structural necessary conditions of the four utilities: outcross_shuffle writes the table only through two-element swaps, undoes "
    "every rejected swap at the same positions, accepts only a strictly smaller duplicate count while updating the incumbent and clearing the "
    "local-optimum flag, scans all i<j pairs (or only cross-row pairs with the true row length) and stops only after a full pass without acceptance; "
    "tiled_choice writes consecutive whole tiles [i*n,(i+1)*n) for i<q and draws the remainder r without replacement with (q,r)=divmod; SUS pointers "
    "start at an offset uniform on [0,total/k) with spacing exactly total/k, the walk and the appended index live in matching index spaces, the result "
    "is a[sel] reshaped to size; axis_shuffle shuffles exactly the slices of sliceaxisix. The floor/ceil guarantee itself under floating-point pointer "
    "arithmetic is a runtime quantity and is not decided.",
    "Trusted: numpy arange/linspace/argsort/cumsum/divmod semantics, Generator.shuffle/choice. Exact output length of numpy.arange with a float step "
    "is outside this check.",
    "DESIGN.md §4 C17")

CLAIMS["C06"] = (
    "keyword/source agreement of Solution assembly, path rule over the exchange scan (swap/evaluate/accept/undo pairing, truthful incumbent), "
    "creation-without-replacement and mask rules for subset operators, view-vs-copy classification, def-use trace of the sorting pipeline, pymoo bridge hand-over rule (ast)",
    "Decides the structural part: all 16 optimisers assemble their Solution from the same-named problem attributes and from X/F/G/H or the "
    "incumbent tuple without cross-wiring; in both hill-climbers every scan path is swap / prob.evalfn(incumbent) / lexicographic (violation, score) "
    "acceptance / swap back, the applied exchange is the recorded (best_i, best_j) and the reported triple is the evaluation taken while it was in place, "
    "the scan covers every member x unused-candidate pair and the search stops only after a scan without improvement; every site that creates a subset "
    "draws without replacement or takes distinct argsort positions, the complement is not-in1d, crossover pools are A\\B / B\\A written back through "
    "their own masks on a copy; arrays exchanged in place are fresh (never views of prob.*); the sorting optimiser scores members singly, sorts ascending "
    "on axis 0, takes [0:ndecn], maps through decn_space and re-evaluates; integer operators round then cast. Feasibility / non-domination / optimality of "
    "what pymoo's own operators return are runtime search results and are NOT decided.",
    "Trusted: pymoo result slots X/F/G/H, numpy choice/argsort/isin semantics. The hill-climber value rules are written against the code's own naming "
    "scheme (gbest_*/best_*/prop_*); a rewrite with other names is reported as unrecognised.",
    "DESIGN.md §4 C06")

CLAIMS["C09"] = (
    "spec congruence through an algebraic normal form + forward taint with function summaries (reciprocal-multiply values reaching comparisons "
    "with 1) + dtype rule against int8 accumulation + structural rules for class counts and complement forms + in-place update analysis with by-reference return summaries (ast)",
    "Decides: every statistic of both genotype classes (tafreq, acount, afreq, maf, meh, gtfreq, codings) normalises to its definition (so the phased "
    "and unphased forms agree by construction); gtcount counts exactly the ploidy+1 classes and writes every row; afixed/apoly are written in "
    "complementary forms; no value computed as (1/D)*N reaches a comparison with 1 anywhere in the genotype / genomic-model code (interprocedural, "
    "through returns and arguments), which is what makes 'exactly 0 or 1' hold for every population size; no reduction over taxa/variants and no "
    "matrix product is carried out in the int8 storage dtype.",
    "Trusted: IEEE-754 (n/n == 1.0 exactly), numpy's promotion of small integers in sum() and non-promotion in einsum/matmul. "
    "Exact floating-point values away from the 0/1 boundary and user-requested narrow output dtypes are not decided.",
    "DESIGN.md §4 C09")
CLAIMS["C10"] = (
    "spec congruence of the limit formulas and their mirror relation (algebraic normal form) + boundary-exactness taint + int8-accumulator rule + "
    "in-place update analysis of the frequency routines + closure lemmas from the meiosis template (ast)",
    "Decides the formulas and the lemmas, not the history quantifier itself: usl_numpy / lsl_numpy normalise to ploidy*sum u*[u>0 ? p>0 : p>=1] and its "
    "mirror, add the same intercept, and receive p and ploidy from the matrix's own afreq()/ploidy; every comparison with 1 in that code receives an "
    "exactly computed frequency; frequencies are not accumulated in int8; and (from C01) every gamete entry is a copy of the selected parent's allele at "
    "the same marker, female/male gametes come from their own parents - so an allele absent from all selected parents cannot appear in progeny. "
    "Monotonicity along every closed history is the logical consequence of these facts for exact frequencies; it is stated as an argument in the "
    "evidence, not explored.",
    "Trusted: numpy.where / comparison semantics, IEEE-754 exact division at n/n. Selection rules and protocol parameters are not enumerated.",
    "DESIGN.md §4 C10")

CLAIMS["C13"] = (
    "spec congruence of estimator formulas through an algebraic normal form + format-specialised evaluation (kinship = 0.5 x coancestry) + keyword/attribute "
    "agreement of labels + int8-accumulator rule (ast)",
    "Decides: the four from_gmat estimators normalise to their published formulas (molecular both ploidies, VanRaden, Yang, generalised weighted) with "
    "the matrix's own afreq() as default reference frequencies and scalar arguments broadcast from themselves; each is a Gram form A.A' of one value A "
    "(symmetric by construction); in all nine format-taking methods and the two accessors the kinship value is exactly half the coancestry value (or the "
    "inverse of the halved matrix); taxa, taxa_grp and group metadata come from the same-named attributes of the source; min/max inbreeding match their "
    "linear-algebra definitions; no Gram product runs in int8. Positive semidefiniteness and equivariance as numerical relations are not decided.",
    "Trusted: numpy dot/matmul/linalg semantics. The reference formulas are transcribed from the class docstrings / the cited papers.",
    "DESIGN.md §4 C13")

CLAIMS["C15"] = (
    "algebraic normal-form proof of the inverse pair + RAW/SCALED unit typing through the field-flow evaluator + invariant-restoration rule + spec "
    "congruence of back-transformed statistics (ast)",
    "Decides: unscale(from_numpy(raw)) normalises to raw with location = nanmean, scale = two-pass nanstd and the 0 -> 1 substitution ahead of the "
    "division; the overridden taxa operations feed self.unscale() and values.unscale() (or a raw array) into the numpy primitive and re-standardise "
    "through from_numpy, with trait names carried; every per-trait statistic with unscale=True normalises to the back-transformed definition "
    "(extremum*scale+location, ptp*scale, location, scale, scale^2) and to the plain reduction otherwise; arg-extrema use the stored matrix. The "
    "inherited mutators and concat_taxa that bypass re-standardisation are reported (12 known findings).",
    "Trusted: numpy nanmean/nanstd/ptp semantics. Not decided: NaN propagation inside reductions; the constant-trait corner of tstd/tvar(unscale=True).",
    "DESIGN.md §4 C15")

CLAIMS["C05"] = (
    "value numbering with an algebraic normal form and contribution canonicalisation: sibling congruence across the four decision encodings and spec "
    "congruence with a reference term per criterion; structural rules for evalfn wiring, Cholesky factor, factory forwarding, chunk slice coupling, "
    "loop-variant data and in-place update (may-alias) analysis of the decision vector (ast)",
    "Decides for all 56 non-simulating latentfn bodies (16 criterion families): after rewriting the subset form (1/len(x))*D[x].sum(k) and the weight form "
    "(x/sum(x)).D to one contrib(D,k) atom, every encoding equals the criterion's reference term (sign, data attribute, contracted axis, norm/abs wrapper, "
    "concatenation order) - hence the encodings agree with each other - and the decision vector occurs nowhere else (scale and order invariance by "
    "construction); evalfn applies each declared weight and transformation to one latent value without in-place updates and _evaluate fills F,G,H in order; "
    "all 13 Cholesky sites build cholesky(kinship).T; 66 factories forward same-named arguments; the chunked OHV builder tiles [0,n) and touches only "
    "[rst:rsp] per chunk; usefulness = epgc.bv[cross] + i*sqrt(var[cross]); per-index loops store index-dependent values. Numerical agreement to rounding is "
    "not decided.",
    "Trusted: the reference terms (table B.2 in DESIGN.md) transcribe the class docstrings; numpy dot/norm/bincount semantics. The zero-sum guard "
    "`xsum if abs(xsum) >= 1e-10 else 1` is treated as the identity (it differs only at sum(x)=0, outside the decision space). RealLookAhead* simulates and is not claimed.",
    "DESIGN.md §4 C05")

CLAIMS["C12"] = (
    "branch-by-branch spec congruence of the linkage-decay terms (algebraic normal form) + tiling / slice-coupling rules over the chunked double sums + "
    "rank and initialisation analysis of the result tensors + usefulness formula (ast)",
    "Decides necessary conditions only - the tensor identity with exhaustive gamete enumeration is a numerical fact outside static reach: rprob_filial, "
    "cov_D1s, cov_D2s, cov_D1st, cov_D2st equal their closed forms in every branch (generation index nself+1, coefficients, signs); in all sixteen "
    "from_algmod builders every chunk loop is zip(range(a,b,s), srange(a+s,b,s)) over one common (a,b,s) with s = (b-a) if mem is None else mem and mem used "
    "nowhere else (chunk-size independence by construction), a triangular block visit may only double vector-valued contributions, every chunk slice is "
    "exactly [rst:rsp] or [cst:csp], r = mapfn(|gi-gj|) of genpos meshed (rows, cols) 'ij', linkage terms receive (r, nself); results are zero-initialised "
    "and no store uses more subscripts than allocated; usefulness = epgc.bv[cross] + i*sqrt(var[cross]).",
    "Trusted: numpy meshgrid/matmul semantics; the closed forms transcribe the docstrings of vmat/util.py. Known findings: the four abstract "
    "ProgenyGenicCovariance classes (uninitialised diagonal / rank) which cannot be instantiated.",
    "DESIGN.md §4 C12")

CLAIMS["C04"] = (
    "spec congruence of numpy kernels, count/flag definitions and rrBLUP assembly through an algebraic normal form + structural rules for intercept row, "
    "dominance design blocks, genotype coding, label hand-off, same-named parameter forwarding + boundary-exactness taint (ast)",
    "Decides the structural part: predict/gebv/gegv/score/var_A/var_a/bulmer kernels of the four model classes normalise to their definitions (linearity "
    "in the design, so invariance to taxon order and marker partition follows for exact arithmetic); gebv/gegv add the fully written intercept row "
    "[1,1/q,..].beta; the dominance design is (A != 0)&(A != ploidy) with blocks [A,D] and [u_a;u_d] in the same order at all sites; every design is "
    "requested in the {0,1,2} coding; results carry the genotype object's taxa/taxa_grp; the twelve favourable/deleterious/neutral count, frequency and flag "
    "routines equal their definitions (mirror u>0 / u<0, zero-effect reset); shared parameters such as ploidy are forwarded; no reciprocal-multiply frequency "
    "reaches a comparison with 1; rrBLUP uses the uncentred mean as intercept, ridge = varE/varU on the diagonal of Z'Z, Z'y, the Gauss-Seidel sweep and "
    "exact zeros for monomorphic markers. Convergence / optimality of Nelder-Mead and Gauss-Seidel are NOT decided.",
    "Trusted: numpy matmul/where/var semantics; scipy.optimize.minimize. The normal-equation and 'never worse than zero' clauses are numerical and outside this check.",
    "DESIGN.md §4 C04")

CLAIMS["C07"] = (
    "wiring rules: decision provenance in select(), keyword forwarding (select and constructors), sampling-pipeline sequence per configuration class, index-generator structure, plus the "
    "exchange-search path rule shared with C17 (ast)",
    "Decides the wiring, not the optimisation: in all eight selection protocols the configuration is built from the solver's own decision (soln_decn[0], or "
    "soln_decn[argmax(ndset_wt * ndset_trans(front objectives, **kwargs))] of the same solution object), with ncross/nparent/nmating/nprogeny and the population "
    "forwarded by name; sosolve/mosolve build the problem from the same-named arguments, run the matching optimiser on it and copy every solution field by name; "
    "each of the eight configuration classes samples by (draw without replacement over the decision / repeat(arange(n), counts) or SUS over arange(n) with the "
    "weights, size (ncross, nparent)) -> outcross_shuffle -> axis_shuffle(axis 0) -> store, or draw/shuffle/cross-map lookup for mate encodings, always with "
    "self.rng; triuix/triudix start levels at l[-1] / l[-1]+1 and xmapix picks distinct parents iff unique_parents; the outcross search satisfies C17-R1. "
    "That an exact optimiser picks the best candidates, equivariance and balance are runtime clauses and are NOT decided.",
    "Trusted: the sampling utilities (checked under C17) and the optimisers (C06).",
    "DESIGN.md §4 C07")

CLAIMS["C19"] = (
    "finite order-type evaluation of the comparison-only dominance predicate; value-numbered loop body of the filter against its structural reference; "
    "guarded-division rule; whole-term comparison of the three distance transformations with the geometric definition (ast)",
    "Decides: (1) `dominates` on ALL order types of its inputs (25 orderings of cv1, cv2, 0 x 8 sets of element-wise relations), which is the whole clause "
    "because the function touches its arguments only through comparisons; its five call sites pair objective and violation of one solution, in (dominator, dominated) "
    "order, read from one evaluation ('F', 'G'+'H'), and the archive's parallel lists are edited in lockstep; (2) the STRUCTURE of is_pareto_efficient: weights once, "
    "keep = any(F > F[pivot], axis=1) with the pivot kept, points and indices filtered by the same mask, pivot' = kept-before + 1, loop while pivot < remaining, "
    "mask form = zeros(original npt)[index form] = True, and its caller indexes arrays built from one population; (3) every division by a per-objective range is "
    "zero-guarded (finite for a constant objective); (4) each distance transformation normalises to || M - ((M.v)/(v.v)) v || with M = ((P*sign) - min)/range and "
    "the documented roles of its parameters (translation invariance is the `- min` step), and the default transformation is given exactly its parameters. "
    "NOT decided: that the pivot arithmetic of the filter returns the non-dominated set for every order of dominated / duplicate points (the loop invariant of an "
    "algorithm; only its structural necessary conditions are checked), order- and rescaling-invariance of the efficient set as runtime facts.",
    "Trusted: numpy semantics of any/max/min/dot/norm; the parameter roles are frozen from the docstrings (table TRANS).",
    "DESIGN.md §4 C19")

CLAIMS["C18"] = (
    "counting obligations on the apportionment loop (start + trips == requested as polynomials, trips >= 0 from the guard); closed-interval / shared-slice / "
    "monotone-counter rules on the binning loops; run-length-encoding shape of the bounds scan; slice coupling and definite initialisation of the four "
    "block-value builders; value-numbered OHV / OPV reductions and factory wiring (ast)",
    "Decides the structural clauses: every chromosome >= 1 block and exactly the requested total (ones(nchr) + (requested - nchr) unit increments, guarded); every "
    "marker labelled (both membership bounds closed over linspace(first, last, blocks+1)), labels stored through the slice they were computed on, label counter "
    "never reset (blocks within chromosomes, ordered); bounds are a run-length encoding (contiguous, covering); block value j,t = geno[:,:,st:sp].effects[st:sp,t] "
    "with the same (st,sp) and the array zero-initialised (finite when an equal-width bin is empty); OHV = ploidy*max(phase,parent).sum(blocks) per chunk, "
    "OPV = -ploidy*max(phase,selected).sum(blocks), ploidy = axis 0, factories hand the builders the right arguments and the same cross map to the problem. "
    "Conservation and the doubled-haploid bound follow from these but are NOT decided as numerical facts; which bin a marker falls in (floating-point linspace) "
    "is not decided.",
    "Trusted: positions sorted within chromosome groups (is_grouped_vrnt guard), numpy linspace endpoints exact.",
    "DESIGN.md §4 C18")

CLAIMS["C14"] = (
    "path language over the replicate loop (one block per parallel list on every path), role typing of the record lists against the frame columns, value-numbered "
    "record value and heritability formulas, derived-state invalidation rule, index-space rule for the name-keyed alignment loop (ast)",
    "Decides the structural clauses: phenotype() loops zip(range(nenv), nrep) x range(env_nrep) and on every path appends exactly one ntaxa-row block to each column "
    "list, each list reaching the column of its role (taxa, taxa_grp, env = counter+1, rep = counter+1, values stacked on axis 0); value = gegv(pgmat).unscale() + "
    "env effect (once per environment) + replicate effect (once per replicate) + error (ntaxa rows per replicate), each a zero-mean self.rng.multivariate_normal "
    "with diag(own variance vector) - so zero variances give exactly the true value; nothing derived from a variance vector survives a change of it; "
    "var_err = (1-h)/h * var_A (var_G for H2); estimate() groups by taxa (and group) with 'mean' over all trait columns, and with a genotype matrix copies, for "
    "position i of gtobj.taxa, the aggregate row found by that taxon's NAME (table built from the aggregate's own taxa column), leaves NaN otherwise and labels "
    "the result from the genotype object; TruePhenotyping / TrueBreedingValue return unscaled gegv / gebv. NOT decided: convergence of realised variances "
    "(distributional), pandas group-by semantics, row-order invariance as a runtime fact.",
    "Trusted: pandas groupby/concat, numpy multivariate_normal with a zero covariance returns the mean.",
    "DESIGN.md §4 C14")

NOT_YET = "rule set not built yet (build in progress; see DESIGN.md §8)"
NA = {}


def main():
    checks = []
    for pid in ALL:
        if pid not in CLAIMS:
            continue
        tech, text, note, ref = CLAIMS[pid]
        if pid in WIRED:
            tech += ("; wiring rules over the resolved calls of the modules the property owns (sa/ctorflow.py): constructor forwarding along the MRO, argument exchange / "
                     "double feed / dropped parameter by name, accessor pairs, sibling-family agreement")
            text += (" Wiring (added after the seventh and eighth seeding rounds): every super().__init__ hands each option both constructors accept on under its own name; no call "
                     "binds two parameters of its resolved callee to each other's names, feeds one value into its own slot and another, leaves a same-named parameter behind "
                     "unread, or loses a value in the callee's **kwargs; property getters return what their setters store; members of a family of sibling classes dispatch "
                     "within their family and wire corresponding calls alike - necessary conditions for whatever the declared options stand for, decided on the call graph, "
                     "not on the anchored functions' bodies.")
        checks.append({
            "property_id": pid,
            "quick_cmd": "./check %s --tier quick" % pid,
            "thorough_cmd": "./check %s --tier thorough" % pid,
            "evidence_file": "/verif/evidence/%s.json" % pid,
            "replay_cmd_template": "./check %s --replay {path}" % pid,
            "engine": "sa",
            "level_claimed": {"category": "other", "text": text, "design_ref": ref},
            "level_note": note,
            "technique": "static analysis: " + tech,
        })
    m = {
        "version": 1,
        "setup_cmd": "python3 -m compileall -q sa rules tools >/dev/null 2>&1 || true",
        "hooks": {
            "guard": "RZSHROTE_PYBROPS_VERIF",
            "enable": "no hooks: the checks read /repo's source with ast and never import or run it",
            "baseline_off_cmd": "cd /repo && /venv/bin/python -m pytest -ra -q -p no:cacheprovider --timeout=900 --continue-on-collection-errors",
            "source_commits": [],
            "add_only": True,
        },
        "engines": [{
            "name": "sa", "path": "sa/", "serves_properties": sorted(CLAIMS),
            "kind_free_text": "repository-specific static analysis on CPython ast: program model with C3 MRO and property tables, "
                              "own call resolution (CHA), path languages over statement CFGs, field flow, value numbering, "
                              "generator flow, taint; three-valued verdicts (discharged / violated / unrecognised=exit 2)"}],
        "checks": checks,
        "notes": "Static analysis only (DESIGN.md). Nothing from pybrops is imported or executed by any check. "
                 "known_findings.json lists genuine defects that are recorded rather than repaired; fix: commits in /repo are listed there under 'fixed'.",
        "not_applicable": [{"property_id": i, "reason": NA.get(i, NOT_YET)} for i in ALL if i not in CLAIMS],
    }
    with open(os.path.join(HERE, "MANIFEST.json"), "w") as f:
        json.dump(m, f, indent=1)
    print("claimed:", sorted(CLAIMS))


if __name__ == "__main__":
    main()
