#!/usr/bin/env python3
"""tools/triage_patches.py /tmp/seed/C01m/r1 /tmp/seed/C01m/r2 ...  -> applies each <dir>/patch.diff to a scratch copy of /repo/pybrops and runs ALL 20 checks on it;
prints every check that does not exit 0 with its first VIOLATION / ANALYSIS-ERROR lines (development tool)."""
import concurrent.futures as cf, os, re, shutil, subprocess, sys, tempfile
here = os.path.dirname(os.path.dirname(os.path.abspath(__file__)))
ALL = ["C%02d" % i for i in range(1, 21)]


def one(d):
    tmp = tempfile.mkdtemp(prefix="triage_", dir="/tmp")
    try:
        shutil.copytree("/repo/pybrops", os.path.join(tmp, "pybrops"), ignore=shutil.ignore_patterns("__pycache__"))
        r = subprocess.run(["patch", "-p1", "-s", "--no-backup-if-mismatch", "-i", os.path.join(d, "patch.diff")], cwd=tmp, capture_output=True, text=True)
        if r.returncode:
            return d, [("patch", 99, ["does not apply: " + (r.stdout + r.stderr)[-200:]])]
        out = []
        env = dict(os.environ, VERIF_REPO=tmp, VERIF_EVID_DIR=os.path.join(tmp, "evidence"))
        for cid in ALL:
            r = subprocess.run([os.path.join(here, "check"), cid], env=env, capture_output=True, text=True)
            if r.returncode != 0:
                lines = [l for l in r.stdout.splitlines() if l.startswith("ANALYSIS-ERROR") or re.match(r"^  \S+:\d+ ", l)]
                lines = [l for l in lines if "KNOWN" not in l]
                out.append((cid, r.returncode, lines[:4]))
        return d, out
    finally:
        shutil.rmtree(tmp, ignore_errors=True)


def main():
    dirs = [d for d in sys.argv[1:] if os.path.exists(os.path.join(d, "patch.diff"))]
    with cf.ProcessPoolExecutor(max_workers=8) as ex:
        for d, out in ex.map(one, dirs):
            print("== %s: %s" % (d, "clean" if not out else ", ".join("%s rc=%d" % (c, rc) for c, rc, _ in out)))
            for c, rc, lines in out:
                for l in lines:
                    print("     [%s] %s" % (c, l[:300]))


if __name__ == "__main__":
    main()
