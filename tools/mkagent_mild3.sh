#!/bin/sh
# usage: tools/mkagent_mild3.sh C03 p   -> creates worktree /tmp/wt/C03r and prints the prompt for a behaviour-PRESERVING refactoring agent
ID=$1; TAG=$2
WT=/tmp/wt/$ID$TAG
OUT=/tmp/seed/$ID$TAG
git -C /repo worktree add --detach -f $WT HEAD >/dev/null 2>&1
mkdir -p $OUT
python3 - "$ID" "$WT" "$OUT" <<'PY'
import json,sys
pid,wt,out=sys.argv[1:4]
rec=[json.loads(l) for l in open('/verif/properties.jsonl') if json.loads(l)['id']==pid][0]
print(f"""You are helping test a verification effort for the Python library rzshrote/pybrops (plant-breeding simulation; numpy/pymoo based). This time your job is the opposite of bug seeding: write REALISTIC, BEHAVIOUR-PRESERVING REFACTORINGS of the code that implements the semantic property given below — the kind of clean-up, restructuring or optimisation a maintainer would really commit — such that the property STILL HOLDS exactly as before. They will be used to check that a checker does not raise false alarms on correct code.

Your private scratch git worktree of the repository is at: {wt}
Work ONLY inside {wt} (source edits) and {out} (your deliverables). Never touch /repo or /verif, and do not read anything under /verif.

THE PROPERTY (JSON record; 'statement' is what must hold, 'anchors' tells you where in the code it is implemented):
{json.dumps(rec, indent=1)}

Environment facts you need:
- Python to use: /venv/bin/python (3.12). `import pybrops` fails under the sandbox numpy 2.5 unless you first do `import numpy; numpy.float_ = numpy.float64` (some code paths also need `numpy.in1d = numpy.isin`) — put that shim at the top of your demonstration program. Run your demo as: cd {wt} && PYTHONPATH={wt} /venv/bin/python {out}/<rN>/demo.py   (PYTHONPATH makes `import pybrops` resolve to your worktree; verify with pybrops.__file__).
- The pinned test suite (must still pass): cd {wt} && PYTHONPATH={wt} /venv/bin/python -m pytest -q -p no:cacheprovider --timeout=900 --continue-on-collection-errors 2>&1 | tail -3   (run the WHOLE suite exactly like this; expected summary: '1 failed, 92 passed, 305 errors' - the errors are collection errors caused by the numpy incompatibility and are expected).
- No network. Do not install anything. NEVER use `git stash` (shared between worktrees); use `git diff > patch.diff; git checkout -- .` and `git apply patch.diff`.

What I want — FIVE independent SMALL edits of the kind found in routine pull requests (each 3-25 changed lines, different functions or different kinds of edit), each as its own deliverable directory {out}/r1 ... {out}/r5 containing:
  1. patch.diff — `git diff` of ONLY that refactoring relative to the worktree's HEAD (then `git checkout -- .` before the next). Touch only files under pybrops/ that are named in the property's anchors (or helpers they call).
  2. demo.py — a deterministic program (fixed seeds) that exercises the refactored code through the public API on a range of inputs INCLUDING the edge cases the property names, records the results, and compares them with reference values; it must pass (exit 0) both on the unchanged tree and with the refactoring applied, and print a digest of the outputs so that both runs can be seen to agree bit-for-bit (or to rounding error where the arithmetic was legitimately re-associated — say which).
  3. notes.md — what was restructured and the argument why behaviour is unchanged.

This round, aim at least three of the five edits at WIRING code rather than at arithmetic: constructors (`__init__` and their `super().__init__(...)` calls), classmethod factories (`from_*`) and the calls they make, property getters / setters, `__copy__` / `__deepcopy__`, and call sites that forward many arguments by keyword. Typical harmless edits there: pass some arguments positionally instead of by keyword or the reverse; bind an argument to a well-named local first (`weights = mkrwt`) and pass the local; rename a parameter-shadowing local; reorder keyword arguments; collect keyword arguments in a dict and pass `**opts`; thread a NEW optional parameter (default = old behaviour) through a constructor chain or a factory; let a subclass accessor delegate to the base accessor; store through the public property instead of the private attribute or the reverse where that is equivalent; replace a copy-pasted argument block by a shared private helper; normalise an argument (`numpy.asarray`, `int(...)`) where it is already of that type. Behaviour must stay identical.

Kinds of edit to draw from (pick five DIFFERENT kinds; do NOT rewrite an algorithm - these are the small things that accompany ordinary maintenance): add an input check or guard clause that raises for arguments that were already invalid; add a new optional keyword parameter whose default keeps the old behaviour (and thread it through one call); add or reword comments, docstrings, type annotations; rename a local variable or a private helper (and its call sites); extract 2-6 lines into a private helper or inline a tiny helper; reorder independent statements; swap the branches of an if/else with the test negated; replace an accumulate-in-a-loop by a comprehension or the reverse; replace len(x) by x.shape[0] (arrays only), `x.sum(0)` by `x.sum(axis=0)`, `a.dot(b)` by `a @ b` (float matrices), `numpy.zeros(n) + c` by `numpy.full(n, c)`; change positional arguments to keywords; import-style changes (`import numpy as np`); replace a literal by a named module-level constant; add logging / a warnings.warn on a path that does not change results; use tuple unpacking or un-unpack; convert `%`-formatting of an error message to an f-string. The SAME demo.py may be shared by several of the five edits (copy it into each directory). Spread the five edits over DIFFERENT anchored functions (not only the first anchor; include at least one sibling class or subclass and one helper). Every edit must be genuinely equivalent for ALL inputs in the quantifier of the property - if you are not sure, do not deliver it.

Final answer: a short summary per refactoring (file, function, kind of rewrite) and confirmation of: tests pass with it; demo passes without and with it with identical digests.""")
PY
