#!/usr/bin/env python3
"""Regenerate the seeded-change table of DESIGN.md §10.5 from seeded/matrix.json, seeded/*/meta.json and seeded/history.json."""
import json, os, re
here = os.path.dirname(os.path.dirname(os.path.abspath(__file__)))
mx = json.load(open(os.path.join(here, "seeded", "matrix.json")))
hist = json.load(open(os.path.join(here, "seeded", "history.json")))
rows = ["| seeded change (property) | needs, to manifest | reported by (rules) | also reported by | on arrival |", "|---|---|---|---|---|"]
for name in sorted(mx["seeds"]):
    r = mx["seeds"][name]
    meta = json.load(open(os.path.join(here, "seeded", name, "meta.json")))
    own = meta["property"]
    if "error" in r:
        rows.append("| %s | | **stale patch** | | |" % name)
        continue
    o = r.get(own, {})
    okk = o.get("rc") == 1 and o.get("violations", 0) > 0
    others = ["%s (%s)" % (k, ", ".join(v["rules"])) for k, v in sorted(r.items()) if k != own and v["rc"] == 1]
    rows.append("| %s | %s | %s | %s | %s |" % (name, meta.get("needs_to_manifest", "")[:150], ("%s: %s" % (own, ", ".join(o.get("rules", [])))) if okk else "**MISSED**",
                                          "; ".join(others), hist.get(name, "caught")))
n = len(mx["seeds"])
caught = sum(1 for nm, r in mx["seeds"].items() if "error" not in r and r.get(json.load(open(os.path.join(here, "seeded", nm, "meta.json")))["property"], {}).get("rc") == 1)
rows.append("")
rows.append("%d seeded changes, %d reported as VIOLATION by their own property's check (%s tier); unchanged tree: %s." % (
    n, caught, mx["tier"], "all checks exit 0" if all(v["rc"] == 0 for v in mx["clean"].values()) else "NOT clean"))
p = os.path.join(here, "DESIGN.md")
s = open(p).read()
s = re.sub(r"<!-- SEEDS-BEGIN -->.*?<!-- SEEDS-END -->", "<!-- SEEDS-BEGIN -->\n" + "\n".join(rows).replace("\\", "\\\\") + "\n<!-- SEEDS-END -->", s, flags=re.S)
open(p, "w").write(s)
print("table rows:", n)
