#!/bin/sh
# usage: tools/mkagent.sh C03 a   -> creates worktree /tmp/wt/C03a and prints the agent prompt
ID=$1; TAG=$2
WT=/tmp/wt/$ID$TAG
OUT=/tmp/seed/$ID$TAG
git -C /repo worktree add --detach -f $WT HEAD >/dev/null 2>&1
mkdir -p $OUT
python3 - "$ID" "$WT" "$OUT" "${HINT:-}" <<'PY'
import json,sys
pid,wt,out,hint=sys.argv[1:5]
rec=[json.loads(l) for l in open('/verif/properties.jsonl') if json.loads(l)['id']==pid][0]
print(f"""You are helping test a verification effort for the Python library rzshrote/pybrops (plant-breeding simulation; numpy/pymoo based). Your job: write a REALISTIC BUG — a small source change to the library that BREAKS the semantic property given below, while the library still imports/compiles and the existing pinned test suite still passes.

Your private scratch git worktree of the repository is at: {wt}
Work ONLY inside {wt} (source edits) and {out} (your deliverables). Never touch /repo or /verif, and do not read anything under /verif.

THE PROPERTY (JSON record; 'statement' is what must hold, 'anchors' tells you where in the code it is implemented):
{json.dumps(rec, indent=1)}

Environment facts you need:
- Python to use: /venv/bin/python (3.12). `import pybrops` fails under the sandbox numpy 2.5 unless you first do `import numpy; numpy.float_ = numpy.float64` — put that shim at the top of your demonstration program. With the shim the whole library imports and runs. Run your demo as: cd {wt} && PYTHONPATH={wt} /venv/bin/python {out}/<mN>/demo.py   (PYTHONPATH makes `import pybrops` resolve to your worktree instead of the installed /repo; verify with pybrops.__file__).
- The pinned test suite (must still pass with your change): cd {wt} && PYTHONPATH={wt} /venv/bin/python -m pytest -q -p no:cacheprovider --timeout=900 --continue-on-collection-errors 2>&1 | tail -3   (run the WHOLE suite exactly like this; expected summary on the unchanged tree: '1 failed, 92 passed, 305 errors' - the errors are collection errors caused by the numpy incompatibility and are expected; running single test files instead does NOT work).
- No network. Do not install anything.
- NEVER use `git stash` (the stash is shared by all worktrees of this repository and other people work in sibling worktrees): to switch between changed/unchanged code use `git diff > /path/patch.diff; git checkout -- .` and `git apply /path/patch.diff`.

What I want — TWO independent changes (different code sites / different failure mechanisms), each as its own deliverable directory {out}/m1 and {out}/m2 containing:
  1. patch.diff — `git diff` output of ONLY that change relative to the worktree's HEAD (apply one change at a time; produce with `git -C {wt} diff > .../patch.diff`, then `git -C {wt} checkout -- .` before making the next change). Touch only files under pybrops/ (not tests).
  2. demo.py — a small self-contained program (or pytest file) that exercises the public API, exits 0 / passes on the UNCHANGED tree and exits non-zero / fails WITH the change applied, demonstrating that the property is violated. It must be deterministic (fixed seeds).
  3. notes.md — which clause of the property the change breaks, the exact file/function changed, and what specific conditions are needed for the bug to manifest.

Requirements on the changes:
- They must be the kind of mistake a maintainer could plausibly make in a refactor or "optimisation" (an index array reused for the wrong field, a guard dropped, a wrong axis, a comparison flipped, a copy replaced by a reference, a keyword forwarded from the wrong variable, a reset omitted on one path...), not sabotage like `raise` or returning garbage everywhere.
- Prefer changes that need something SPECIFIC to manifest — an unusual input (particular sizes, duplicated labels, exact 0/1 values, optional arrays present/absent), a multi-step sequence of operations, a particular configuration, or two cooperating sites that each look fine alone — rather than ones every ordinary call would expose at once.
- The change must keep the library importable and the 92 pinned tests passing. Verify this yourself.
- Verify yourself that demo.py passes on the unchanged worktree (git stash / checkout) and fails with the patch applied. If the unchanged code already violates the property in the way you wanted to demonstrate (the library has some genuine bugs), pick a different site.
{('- ' + hint) if hint else ''}
- Leave the worktree clean (git -C {wt} checkout -- .) when you finish.

Final answer: a short summary per change (file, function, what breaks, how the demo shows it) and confirmation of the three verifications (tests pass with change; demo passes without; demo fails with).""")
PY
