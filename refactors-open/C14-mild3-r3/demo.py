#!/usr/bin/env python3
"""
Deterministic demonstration for property C14 (phenotyping and breeding-value
estimation preserve truth and alignment).

Exercises, through the public API only:
  * G_E_Phenotyping: constructor, copy / deepcopy, to_hdf5 / from_hdf5,
    phenotype (zero noise, noise, unequal replicate counts, default labels,
    a single taxon), set_h2 / set_H2
  * TruePhenotyping: phenotype, copy / deepcopy, from_hdf5
  * MeanPhenotypicBreedingValue.estimate (with / without genotype matrix,
    permuted rows, permuted taxa, unphenotyped taxa, grouping column)
  * TrueBreedingValue.estimate
  * DenseEstimatedBreedingValueMatrix.from_numpy (incl. missing values)

Every block is compared with an independent oracle written in plain numpy and
contributes to a SHA-256 digest of the raw bytes of all outputs.  The digest is
compared with the value recorded on the unmodified tree, so any change of even
one bit in any output makes the program exit non-zero.
"""
import numpy
numpy.float_ = numpy.float64
numpy.in1d = numpy.isin

import copy
import hashlib
import inspect
import os
import sys
import tempfile
import warnings

import pandas

import pybrops
from pybrops.breed.prot.pt.G_E_Phenotyping import G_E_Phenotyping
from pybrops.breed.prot.pt.TruePhenotyping import TruePhenotyping
from pybrops.breed.prot.bv.MeanPhenotypicBreedingValue import MeanPhenotypicBreedingValue
from pybrops.breed.prot.bv.TrueBreedingValue import TrueBreedingValue
from pybrops.model.gmod.DenseAdditiveLinearGenomicModel import DenseAdditiveLinearGenomicModel
from pybrops.popgen.gmat.DensePhasedGenotypeMatrix import DensePhasedGenotypeMatrix
from pybrops.popgen.bvmat.DenseEstimatedBreedingValueMatrix import DenseEstimatedBreedingValueMatrix

# digest recorded on the unmodified tree (bit-for-bit reference)
EXPECTED_DIGEST = "2eeaa5a0bda4af3216c22871e1adf9cf540f740f681105c32ecc96cdf560d889"

H = hashlib.sha256()
NCHECK = 0

def feed(tag, obj):
    """Add an object to the running digest (raw bytes for arrays)."""
    H.update(tag.encode())
    if obj is None:
        H.update(b"<None>")
    elif isinstance(obj, pandas.DataFrame):
        H.update(repr(list(obj.columns)).encode())
        H.update(repr([str(t) for t in obj.dtypes]).encode())
        for c in obj.columns:
            feed(tag + "." + str(c), obj[c].to_numpy())
    elif isinstance(obj, numpy.ndarray):
        H.update(str(obj.dtype).encode())
        H.update(repr(obj.shape).encode())
        if obj.dtype == object:
            H.update(repr(obj.tolist()).encode())
        else:
            H.update(numpy.ascontiguousarray(obj).tobytes())
    else:
        H.update(repr(obj).encode())

def check(cond, msg):
    global NCHECK
    NCHECK += 1
    if not cond:
        print("FAIL:", msg)
        sys.exit(1)

def same(a, b):
    """bitwise equality of two float arrays (NaN == NaN)."""
    a = numpy.asarray(a); b = numpy.asarray(b)
    return a.shape == b.shape and a.dtype == b.dtype and a.tobytes() == b.tobytes()

################################################################################
# fixtures
################################################################################
def make_pop(seed, ntaxa, nvrnt, ntrait, taxa="shuffled", grp=True, trait=True):
    r = numpy.random.default_rng(seed)
    mat = r.integers(0, 2, size=(2, ntaxa, nvrnt)).astype("int8")
    if taxa == "shuffled":
        names = numpy.array(["L%03d" % i for i in r.permutation(ntaxa) + 7], dtype=object)
    elif taxa == "sorted":
        names = numpy.array(["L%03d" % i for i in range(ntaxa)], dtype=object)
    else:
        names = None
    taxa_grp = r.integers(1, 4, size=ntaxa).astype("int64") if grp else None
    pg = DensePhasedGenotypeMatrix(
        mat=mat, taxa=names, taxa_grp=taxa_grp,
        vrnt_chrgrp=numpy.repeat(numpy.arange(1, 3), [nvrnt // 2, nvrnt - nvrnt // 2]).astype("int64"),
        vrnt_phypos=numpy.arange(1, nvrnt + 1, dtype="int64"),
    )
    beta = r.normal(size=(1, ntrait))
    u_a = r.normal(size=(nvrnt, ntrait))
    tr = numpy.array(["yield", "height", "protein", "oil"][:ntrait], dtype=object) if trait else None
    gm = DenseAdditiveLinearGenomicModel(beta=beta, u_misc=None, u_a=u_a, trait=tr, model_name="demo")
    # independent oracle of the true genotypic values
    Z = mat.sum(0).astype(float)
    truth = beta + Z @ u_a
    return pg, gm, truth

def expected_layout(ntaxa, nrep):
    env = numpy.concatenate([numpy.repeat(e + 1, ntaxa * k) for e, k in enumerate(nrep)])
    rep = numpy.concatenate([numpy.repeat(numpy.arange(1, k + 1), ntaxa) for k in nrep])
    return env, rep

################################################################################
# 1. G_E_Phenotyping: one record per taxon x env x rep, labels, zero noise
################################################################################
def block_ge_zero_noise():
    for seed, ntaxa, nvrnt, ntrait, taxa, grp, trait, nenv, nrep in [
        (11, 9, 20, 2, "shuffled", True, True, 3, numpy.array([2, 1, 3])),
        (12, 12, 15, 3, "sorted", False, True, 2, 2),
        (13, 10, 18, 1, None, False, False, 1, 1),       # default labels
        (14, 1, 6, 2, "shuffled", True, True, 2, numpy.array([1, 2])),  # one taxon
        (15, 100, 8, 2, None, True, False, 1, 2),         # zero-fill width at 10**k
    ]:
        pg, gm, truth = make_pop(seed, ntaxa, nvrnt, ntrait, taxa, grp, trait)
        pt = G_E_Phenotyping(gm, nenv, nrep, rng=numpy.random.default_rng(seed))
        check(pt.var_env.dtype == float and not pt.var_env.any(), "default var_env")
        check(pt.var_rep.dtype == float and not pt.var_rep.any(), "default var_rep")
        check(pt.var_err.dtype == float and not pt.var_err.any(), "default var_err")
        df = pt.phenotype(pg)
        feed("ge0-%d" % seed, df)
        k = pt.nrep
        check(isinstance(k, numpy.ndarray) and k.shape == (nenv,), "nrep broadcast")
        nobs = ntaxa * int(k.sum())
        check(len(df) == nobs, "one record per taxon/env/rep")
        env, rep = expected_layout(ntaxa, k)
        check((df["env"].to_numpy() == env).all(), "env labels")
        check((df["rep"].to_numpy() == rep).all(), "rep labels")
        if taxa is None:
            w = len(str(ntaxa - 1)) + 1 if ntaxa > 1 else 1
            names = numpy.array(["Taxon" + str(i + 1).zfill(w) for i in range(ntaxa)], dtype=object)
        else:
            names = pg.taxa
        check((df["taxa"].to_numpy() == numpy.tile(names, int(k.sum()))).all(), "taxa labels")
        if grp:
            check((df["taxa_grp"].to_numpy() == numpy.tile(pg.taxa_grp, int(k.sum()))).all(), "taxa_grp labels")
        else:
            check(df["taxa_grp"].isna().all(), "taxa_grp missing")
        tcols = list(df.columns[4:])
        if trait:
            check(tcols == list(gm.trait), "trait columns")
        else:
            check(tcols == ["Trait" + str(i + 1).zfill(1 if ntrait == 1 else 2) for i in range(ntrait)], "default trait columns")
        vals = df[tcols].to_numpy()
        check(numpy.allclose(vals, numpy.tile(truth, (int(k.sum()), 1)), rtol=1e-12, atol=1e-12), "zero noise == truth")
        # every block must be bit-identical with the first one
        for b in range(int(k.sum())):
            check(same(vals[b * ntaxa:(b + 1) * ntaxa], vals[:ntaxa]), "blocks identical")

################################################################################
# 2. noise: realised variances, generator stream, copies, HDF5 round trip
################################################################################
def block_ge_noise():
    pg, gm, truth = make_pop(21, 40, 30, 2, "shuffled", True, True)
    var_env = numpy.array([4.0, 0.25]); var_rep = numpy.array([1.0, 0.0]); var_err = numpy.array([2.0, 9.0])
    nenv = 60; nrep = numpy.full(nenv, 3); nrep[::2] = 4
    pt = G_E_Phenotyping(gpmod=gm, nenv=nenv, nrep=nrep, var_env=var_env, var_rep=var_rep,
                         var_err=var_err, rng=numpy.random.default_rng(2024))
    df = pt.phenotype(pg)
    feed("noise", df)
    ntaxa = pg.ntaxa
    nblock = int(nrep.sum())
    vals = df[["yield", "height"]].to_numpy().reshape(nblock, ntaxa, 2)
    resid = vals - truth[None, :, :]
    # independent replay of the generator stream
    r = numpy.random.default_rng(2024)
    zeros = numpy.zeros(2)
    exp = []
    envs = []; reps = []
    for e in range(nenv):
        ee = r.multivariate_normal(zeros, numpy.diag(var_env)); envs.append(ee)
        for k in range(nrep[e]):
            re = r.multivariate_normal(zeros, numpy.diag(var_rep)); reps.append(re)
            er = r.multivariate_normal(zeros, numpy.diag(var_err), ntaxa)
            exp.append(truth + ee[None, :] + re[None, :] + er)
    exp = numpy.stack(exp)
    check(numpy.allclose(vals, exp, rtol=1e-12, atol=1e-12), "value = truth + env + rep + err")
    envs = numpy.array(envs); reps = numpy.array(reps)
    # realised variances are near the requested ones (loose: distributional)
    check(numpy.all(numpy.abs(envs.var(0, ddof=1) / var_env - 1.0) < 0.5), "env variance")
    check(abs(reps[:, 0].var(ddof=1) / var_rep[0] - 1.0) < 0.35 and not reps[:, 1].any(), "rep variance")
    errs = (resid - resid.mean(1, keepdims=True))
    ev = (errs ** 2).sum((0, 1)) / (nblock * (ntaxa - 1))
    check(numpy.all(numpy.abs(ev / var_err - 1.0) < 0.05), "error variance")
    feed("noise-ev", numpy.round(ev, 9))

    # copies carry every setting and share the generator
    for name, cp in (("copy", copy.copy(pt)), ("deepcopy", copy.deepcopy(pt)), ("copy()", pt.copy()), ("deepcopy()", pt.deepcopy())):
        check(type(cp) is G_E_Phenotyping, name + " type")
        check(cp.rng is pt.rng, name + " shares rng")
        check(cp.nenv == pt.nenv and same(cp.nrep, pt.nrep), name + " nenv/nrep")
        check(same(cp.var_env, var_env) and same(cp.var_rep, var_rep) and same(cp.var_err, var_err), name + " variances")
        check(cp.gpmod is not pt.gpmod and same(cp.gpmod.u_a, gm.u_a) and same(cp.gpmod.beta, gm.beta), name + " gpmod")
        check(cp.nrep is not pt.nrep and cp.var_env is not pt.var_env and cp.var_rep is not pt.var_rep and cp.var_err is not pt.var_err, name + " arrays are copies")
        if name.startswith("deep"):
            check(cp.gpmod.u_a is not gm.u_a, name + " deep")
        cp.rng = numpy.random.default_rng(2024)
        d2 = cp.phenotype(pg)
        check(d2.equals(df), name + " reproduces the data frame")
        feed("noise-" + name, d2)
        check(pt.rng is not cp.rng, "setter on copy does not touch original")
    # memo is honoured
    memo = {}
    dc = pt.__deepcopy__(memo)
    check(len(memo) > 0 and same(dc.var_err, var_err), "deepcopy memo")

    # HDF5 round trip
    with tempfile.TemporaryDirectory() as td:
        fn = os.path.join(td, "pt.h5")
        pt.to_hdf5(fn)
        pt.to_hdf5(fn, "grp/sub")
        for gname in (None, "grp/sub", "grp/sub/"):
            rd = G_E_Phenotyping.from_hdf5(fn, gname, gm)
            check(type(rd) is G_E_Phenotyping, "from_hdf5 type")
            check(rd.gpmod is gm, "from_hdf5 gpmod")
            check(rd.nenv == nenv and same(rd.nrep, pt.nrep), "from_hdf5 nenv/nrep")
            check(same(rd.var_env, var_env) and same(rd.var_rep, var_rep) and same(rd.var_err, var_err), "from_hdf5 variances")
            check(rd.rng is pybrops.core.random.prng.global_prng, "from_hdf5 default rng")
            rd.rng = numpy.random.default_rng(2024)
            d3 = rd.phenotype(pg)
            check(d3.equals(df), "from_hdf5 reproduces the data frame")
            feed("h5-%s" % gname, d3)
        # optional argument that exists only in some versions of the factory:
        # when present it must be honoured; its default must be the old behaviour
        if "rng" in inspect.signature(G_E_Phenotyping.from_hdf5).parameters:
            g = numpy.random.default_rng(2024)
            rd = G_E_Phenotyping.from_hdf5(fn, None, gm, rng=g)
            check(rd.rng is g, "from_hdf5 rng argument")
            check(rd.phenotype(pg).equals(df), "from_hdf5 rng argument reproduces the data frame")
            print("from_hdf5 accepts rng: exercised")
        rd = G_E_Phenotyping.from_hdf5(filename=fn, groupname=None, gpmod=gm)
        check(same(rd.var_err, var_err), "from_hdf5 keywords")
        # global generator path (seeded) is deterministic too
        pybrops.core.random.prng.seed(99)
        feed("h5-global", rd.phenotype(pg))
        try:
            G_E_Phenotyping.from_hdf5(fn, None, None)
            check(False, "from_hdf5 without gpmod must raise")
        except TypeError:
            pass
        tp = TruePhenotyping(gm)
        tp.to_hdf5(fn)
        t2 = TruePhenotyping.from_hdf5(fn, None, gm)
        check(type(t2) is TruePhenotyping and t2.gpmod is gm, "TruePhenotyping.from_hdf5")

################################################################################
# 3. heritability
################################################################################
def block_heritability():
    for seed, ntrait in ((31, 1), (32, 3)):
        pg, gm, truth = make_pop(seed, 25, 16, ntrait, "shuffled", True, True)
        var_A = gm.var_A(pg); var_G = gm.var_G(pg)
        pt = G_E_Phenotyping(gm, 2, 2, var_env=1.0, var_rep=0.5, rng=numpy.random.default_rng(seed))
        hs = [1.0, 0.5, 0.3, 1e-3, numpy.float64(0.25), numpy.linspace(0.2, 1.0, ntrait)]
        for h in hs:
            pt.set_h2(h, pg)
            ve = pt.var_err
            check(ve.shape == (ntrait,) and ve.dtype == float, "var_err shape")
            check(same(ve, numpy.asarray((1.0 - h) / h * var_A, dtype=float).reshape(ntrait)), "set_h2 formula")
            check(numpy.allclose(var_A / (var_A + ve), h, rtol=1e-12), "h2 attained")
            feed("h2", ve)
            pt.set_H2(h, pg)
            ve = pt.var_err
            check(same(ve, numpy.asarray((1.0 - h) / h * var_G, dtype=float).reshape(ntrait)), "set_H2 formula")
            check(numpy.allclose(var_G / (var_G + ve), h, rtol=1e-12), "H2 attained")
            feed("H2", ve)
            check(same(pt.var_env, numpy.full(ntrait, 1.0)) and same(pt.var_rep, numpy.full(ntrait, 0.5)), "other variances untouched")
        # keyword form and extra keywords
        pt.set_h2(h2=0.4, pgmat=pg, unused=1)
        feed("h2kw", pt.var_err)
        pt.set_H2(H2=0.4, pgmat=pg, unused=1)
        feed("H2kw", pt.var_err)
        # h = 1 -> exactly zero error variance -> truth (plus env/rep shifts)
        pt.set_h2(1.0, pg)
        check(not pt.var_err.any(), "h2=1 -> no error")
        for bad in (pg.mat, None):
            for fn in (pt.set_h2, pt.set_H2):
                try:
                    fn(0.5, bad)
                    check(False, "non-matrix must raise")
                except TypeError:
                    pass
        try:
            pt.set_h2(0.0, pg)
            check(False, "h2 = 0.0 must raise")
        except ZeroDivisionError:
            pass
        df = pt.phenotype(pg)
        feed("h2-1", df)
        tp = TruePhenotyping(gm)
        for fn in (tp.set_h2, tp.set_H2):
            try:
                fn(0.5, pg); check(False, "TruePhenotyping.set_h2 must raise")
            except AttributeError:
                pass
        check(same(tp.var_err, numpy.zeros(ntrait)), "TruePhenotyping.var_err")

################################################################################
# 4. TruePhenotyping / TrueBreedingValue
################################################################################
def block_true():
    for seed, ntaxa, ntrait, taxa, grp, trait in [
        (41, 14, 2, "shuffled", True, True),
        (42, 10, 1, None, False, False),
        (43, 1, 3, "sorted", True, True),
        (44, 1000, 2, None, True, False),
        (45, 11, 12, None, False, False),
    ]:
        pg, gm, truth = make_pop(seed, ntaxa, 7, min(ntrait, 4), taxa, grp, trait)
        if ntrait > 4:
            r = numpy.random.default_rng(seed)
            gm = DenseAdditiveLinearGenomicModel(r.normal(size=(1, ntrait)), None, r.normal(size=(7, ntrait)))
            truth = gm.beta + pg.mat.sum(0).astype(float) @ gm.u_a
        tp = TruePhenotyping(gm)
        for obj in (tp, copy.copy(tp), copy.deepcopy(tp), tp.copy(), tp.deepcopy()):
            df = obj.phenotype(pg, miscout={})
            feed("true-%d" % seed, df)
            check(len(df) == ntaxa, "one record per taxon")
            if taxa is None:
                w = len(str(ntaxa - 1)) + 1 if ntaxa > 1 else 1
                names = ["Taxon" + str(i + 1).zfill(w) for i in range(ntaxa)]
            else:
                names = list(pg.taxa)
            check(list(df["taxa"]) == names, "taxa labels")
            check(("taxa_grp" in df.columns) == grp, "taxa_grp column only when grouped")
            if grp:
                check((df["taxa_grp"].to_numpy() == pg.taxa_grp).all(), "taxa_grp labels")
                check(list(df.columns[:2]) == ["taxa", "taxa_grp"], "column order")
            tcols = list(df.columns[(2 if grp else 1):])
            if trait and ntrait <= 4:
                check(tcols == list(gm.trait), "trait names")
            else:
                w = len(str(ntrait - 1)) + 1 if ntrait > 1 else 1
                check(tcols == ["Trait" + str(i + 1).zfill(w) for i in range(ntrait)], "default trait names")
            check(numpy.allclose(df[tcols].to_numpy(), truth, rtol=1e-12, atol=1e-12), "true phenotype == truth")
        try:
            tp.phenotype(pg.mat); check(False, "ndarray must raise")
        except TypeError:
            pass
        try:
            tp.phenotype(pg, miscout=[]); check(False, "list miscout must raise")
        except TypeError:
            pass
        bv = TrueBreedingValue(gm).estimate(None, pg)
        feed("tbv-%d" % seed, bv.unscale())
        check(numpy.allclose(bv.unscale(), truth, rtol=1e-10, atol=1e-10), "true bv == truth (additive model)")
        check((bv.taxa is None and pg.taxa is None) or (bv.taxa == pg.taxa).all(), "true bv taxa")

################################################################################
# 5. mean-phenotype breeding values
################################################################################
def manual_means(df, key, tcols):
    out = {}
    for t in dict.fromkeys(df[key]):
        rows = df[df[key] == t]
        out[t] = numpy.array([rows[c].to_numpy().sum() / len(rows) for c in tcols])
    return out

def block_meanbv():
    pg, gm, truth = make_pop(51, 15, 24, 2, "shuffled", True, True)
    tcols = ["yield", "height"]
    pt = G_E_Phenotyping(gm, 3, numpy.array([2, 3, 1]), var_env=2.0, var_rep=1.0, var_err=numpy.array([5.0, 0.5]),
                         rng=numpy.random.default_rng(51))
    df = pt.phenotype(pg)
    # unbalanced data: drop some records and every record of two taxa
    r = numpy.random.default_rng(52)
    keep = r.random(len(df)) > 0.25
    gone = list(pg.taxa[[3, 11]])
    keep &= ~df["taxa"].isin(gone).to_numpy()
    dfu = df[keep].reset_index(drop=True)
    means = manual_means(dfu, "taxa", tcols)

    for use_grp in (True, False):
        bvp = MeanPhenotypicBreedingValue("taxa", "taxa_grp" if use_grp else None, tcols)
        check(bvp.trait_cols == tcols and bvp.taxa_col == "taxa", "accessors")
        ref = None
        for p in range(4):
            dfp = dfu if p == 0 else dfu.sample(frac=1.0, random_state=100 + p)
            if p == 3:
                dfp = dfp.reset_index(drop=True)
            for q in range(3):
                if q == 0:
                    gt = pg
                else:
                    ix = numpy.random.default_rng(200 + q).permutation(pg.ntaxa)
                    gt = pg.select_taxa(ix)
                bv = bvp.estimate(dfp, gt, miscout={})
                check(type(bv) is DenseEstimatedBreedingValueMatrix, "bv type")
                u = bv.unscale()
                check((bv.taxa == gt.taxa).all(), "aligned to genotype taxa")
                check((bv.taxa_grp == gt.taxa_grp).all(), "taxa_grp of genotype matrix")
                check(list(bv.trait) == tcols and bv.trait.dtype == object, "trait names")
                for i, t in enumerate(gt.taxa):
                    if t in gone:
                        check(numpy.isnan(u[i]).all(), "unphenotyped taxon is missing")
                        check(numpy.isnan(bv.mat[i]).all(), "unphenotyped taxon is missing (scaled)")
                    else:
                        check(numpy.allclose(u[i], means[t], rtol=1e-12, atol=1e-12), "bv == arithmetic mean")
                check(bv.taxa_grp_name is gt.taxa_grp_name and bv.taxa_grp_stix is gt.taxa_grp_stix
                      and bv.taxa_grp_spix is gt.taxa_grp_spix and bv.taxa_grp_len is gt.taxa_grp_len, "group metadata copied")
                if q == 0:
                    if ref is None:
                        ref = u
                        feed("mbv-%s" % use_grp, u); feed("mbv-mat", bv.mat); feed("mbv-loc", bv.location); feed("mbv-scale", bv.scale)
                    check(numpy.allclose(u, ref, rtol=1e-12, atol=1e-12, equal_nan=True), "row-order invariant")
                if p == 0:
                    feed("mbv-q%d" % q, u); feed("mbv-taxa", bv.taxa); feed("mbv-grp", bv.taxa_grp)
            # without genotype matrix: one row per phenotyped taxon, sorted by label
            bv0 = bvp.estimate(dfp)
            u0 = bv0.unscale()
            check(list(bv0.taxa) == sorted(means), "group-by order without gtobj")
            check(bv0.taxa.dtype == object, "taxa dtype")
            for i, t in enumerate(bv0.taxa):
                check(numpy.allclose(u0[i], means[t], rtol=1e-12, atol=1e-12), "bv0 == arithmetic mean")
            if use_grp:
                g = dict(zip(pg.taxa, pg.taxa_grp))
                check(list(bv0.taxa_grp) == [g[t] for t in bv0.taxa] and bv0.taxa_grp.dtype == int, "bv0 taxa_grp")
            else:
                check(bv0.taxa_grp is None, "bv0 no taxa_grp")
            check(list(bv0.trait) == tcols, "bv0 traits")
            if p == 0:
                feed("mbv0-%s" % use_grp, u0); feed("mbv0-mat", bv0.mat); feed("mbv0-taxa", bv0.taxa); feed("mbv0-grp", bv0.taxa_grp)

    # grouped genotype matrix: metadata present
    pgg = pg.deepcopy(); pgg.group_taxa()
    bvp = MeanPhenotypicBreedingValue("taxa", None, "yield")
    check(bvp.trait_cols == ["yield"], "single trait column")
    bv = bvp.estimate(dfu, pgg)
    check((bv.taxa == pgg.taxa).all() and (bv.taxa_grp_stix == pgg.taxa_grp_stix).all() and (bv.taxa_grp_len == pgg.taxa_grp_len).all(), "grouped metadata")
    check(bv.is_grouped_taxa(), "grouped result")
    feed("mbv-grouped", bv.unscale()); feed("mbv-grouped-stix", bv.taxa_grp_stix)
    # a genotype taxon set disjoint from the table -> everything missing
    with warnings.catch_warnings():
        warnings.simplefilter("ignore")
        other = pg.deepcopy(); other.taxa = numpy.array(["X%d" % i for i in range(pg.ntaxa)], dtype=object)
        bvx = bvp.estimate(dfu, other)
    check(numpy.isnan(bvx.mat).all() and (bvx.taxa == other.taxa).all(), "all missing")
    feed("mbv-allmissing", bvx.mat); feed("mbv-allmissing-loc", bvx.location); feed("mbv-allmissing-scale", bvx.scale)
    # zero noise: estimated == true
    pt0 = G_E_Phenotyping(gm, 2, 3)
    bv = MeanPhenotypicBreedingValue("taxa", "taxa_grp", tcols).estimate(pt0.phenotype(pg), pg)
    check(numpy.allclose(bv.unscale(), truth, rtol=1e-12, atol=1e-12), "zero noise: mean bv == truth")
    feed("mbv-zero", bv.unscale())
    # errors
    for bad in (dfu.to_numpy(), dfu.drop(columns=["taxa"]), dfu.drop(columns=["height"])):
        try:
            MeanPhenotypicBreedingValue("taxa", None, tcols).estimate(bad, pg); check(False, "bad table must raise")
        except (TypeError, ValueError, LookupError):
            pass
    pgn, _, _ = make_pop(51, 15, 24, 2, None, True, True)
    for badg in (pg.mat, pgn):
        try:
            MeanPhenotypicBreedingValue("taxa", None, tcols).estimate(dfu, badg); check(False, "bad gtobj must raise")
        except (TypeError, ValueError):
            pass

################################################################################
# 6. from_numpy helper
################################################################################
def block_from_numpy():
    r = numpy.random.default_rng(61)
    for n, t in ((8, 3), (1, 2), (5, 1)):
        raw = r.normal(3.0, 2.0, size=(n, t))
        if n > 2:
            raw[1, 0] = numpy.nan
        raw[:, -1] = 7.5                       # constant column -> scale 1
        keep = raw.copy()
        taxa = numpy.array(["t%d" % i for i in range(n)], dtype=object)
        grp = numpy.arange(n) % 2
        trait = numpy.array(["a%d" % i for i in range(t)], dtype=object)
        for kw in (dict(taxa=taxa, taxa_grp=grp, trait=trait), dict()):
            with warnings.catch_warnings():
                warnings.simplefilter("ignore")
                bv = DenseEstimatedBreedingValueMatrix.from_numpy(raw, **kw)
            check(same(raw, keep), "input not modified")
            check(bv.mat is not raw, "output is a new array")
            loc = numpy.nanmean(keep, axis=0); sc = numpy.nanstd(keep, axis=0); sc[sc == 0.0] = 1.0
            check(same(bv.location, loc) and same(bv.scale, sc), "location / scale")
            check(same(bv.mat, (1.0 / sc[None, :]) * (keep - loc[None, :])), "standardised matrix")
            check(numpy.allclose(bv.unscale(), keep, rtol=1e-12, atol=1e-12, equal_nan=True), "unscale inverts")
            check((bv.taxa is None) if not kw else (bv.taxa is taxa), "taxa passed through")
            check((bv.taxa_grp is None) if not kw else (bv.taxa_grp is grp), "taxa_grp passed through")
            check((bv.trait is None) if not kw else (bv.trait is trait), "trait passed through")
            feed("fn-mat", bv.mat); feed("fn-loc", bv.location); feed("fn-scale", bv.scale)
        bvp = DenseEstimatedBreedingValueMatrix.from_numpy(keep, taxa, grp, trait)
        check(bvp.taxa is taxa and bvp.taxa_grp is grp and bvp.trait is trait, "positional form")
    try:
        DenseEstimatedBreedingValueMatrix.from_numpy(numpy.zeros(3)); check(False, "1-d must raise")
    except ValueError:
        pass

################################################################################
def main():
    print("pybrops from:", pybrops.__file__)
    block_ge_zero_noise()
    block_ge_noise()
    block_heritability()
    block_true()
    block_meanbv()
    block_from_numpy()
    digest = H.hexdigest()
    print("checks passed:", NCHECK)
    print("digest:", digest)
    if EXPECTED_DIGEST.startswith("@@"):
        print("(no reference digest recorded)")
    elif digest != EXPECTED_DIGEST:
        print("FAIL: digest differs from the reference", EXPECTED_DIGEST)
        sys.exit(1)
    else:
        print("digest equals the recorded reference: OK")
    sys.exit(0)

if __name__ == "__main__":
    main()
