#!/usr/bin/env python
"""
Demonstration / regression program for property C07
("selection protocols turn criteria into valid, correct cross configurations").

It drives the public API (protocol.select(), the *SelectionConfiguration
constructors, and the sampling / index helpers they call) over a range of
inputs with fixed seeds, checks the clauses of the property by independent
means, and prints a SHA-256 digest of every recorded output.  The digest of the
unchanged tree is stored in EXPECTED_DIGEST; the program exits non-zero when a
property check fails or when the digest differs.

Run:
    cd /tmp/wt/C07p && PYTHONPATH=/tmp/wt/C07p /venv/bin/python <this file>
"""
import numpy
numpy.float_ = numpy.float64        # numpy 2.x shim needed by pybrops
numpy.in1d = numpy.isin

import hashlib
import itertools
import sys

import pybrops
from pybrops.breed.prot.sel.EstimatedBreedingValueSelection import EstimatedBreedingValueSubsetSelection
from pybrops.breed.prot.sel.EstimatedBreedingValueSelection import EstimatedBreedingValueRealSelection
from pybrops.breed.prot.sel.OptimalHaploidValueSelection import OptimalHaploidValueSubsetSelection
from pybrops.breed.prot.sel.cfg.SubsetSelectionConfiguration import SubsetSelectionConfiguration
from pybrops.breed.prot.sel.cfg.RealSelectionConfiguration import RealSelectionConfiguration
from pybrops.breed.prot.sel.cfg.IntegerSelectionConfiguration import IntegerSelectionConfiguration
from pybrops.breed.prot.sel.cfg.BinarySelectionConfiguration import BinarySelectionConfiguration
from pybrops.breed.prot.sel.cfg.SubsetMateSelectionConfiguration import SubsetMateSelectionConfiguration
from pybrops.core.random.sampling import axis_shuffle
from pybrops.core.random.sampling import outcross_shuffle
from pybrops.core.random.sampling import stochastic_universal_sampling
from pybrops.core.random.sampling import tiled_choice
from pybrops.core.util.array import triudix
from pybrops.core.util.array import triuix
from pybrops.core.util.array import xmapix
from pybrops.model.gmod.DenseAdditiveLinearGenomicModel import DenseAdditiveLinearGenomicModel
from pybrops.opt.algo.RealOptimizationAlgorithm import RealOptimizationAlgorithm
from pybrops.opt.algo.SortingSubsetOptimizationAlgorithm import SortingSubsetOptimizationAlgorithm
from pybrops.opt.algo.SubsetOptimizationAlgorithm import SubsetOptimizationAlgorithm
from pybrops.opt.soln.RealSolution import RealSolution
from pybrops.opt.soln.SubsetSolution import SubsetSolution
from pybrops.popgen.bvmat.DenseBreedingValueMatrix import DenseBreedingValueMatrix
from pybrops.popgen.gmat.DensePhasedGenotypeMatrix import DensePhasedGenotypeMatrix

# digest printed by the unchanged tree (HEAD of the worktree)
EXPECTED_DIGEST = "3bc45de5bdca11e8439e46fa4a77ff1d52ebe4853d5a1714a17fbf233bb8e67c"

################################################################################
# recording
################################################################################
RECORD = []     # list of (label, bytes)
NCHECK = [0]

def rec(label, value):
    """Record a value (array, scalar, string, list) under a label."""
    if isinstance(value, numpy.ndarray):
        b = (str(value.dtype) + str(value.shape)).encode() + numpy.ascontiguousarray(value).tobytes()
    else:
        b = repr(value).encode()
    RECORD.append((label, b))

def check(cond, msg):
    NCHECK[0] += 1
    if not cond:
        print("PROPERTY CHECK FAILED:", msg)
        sys.exit(1)

def nselfpair(x):
    """Number of self pairings (duplicates within a row) - independent re-implementation."""
    tot = 0
    for row in x:
        row = list(row)
        tot += len(row) - len(set(row))
    return tot

def check_exchange_local_optimum(x, label):
    """No single exchange of two entries reduces the number of self pairings."""
    base = nselfpair(x)
    flat = x.copy().ravel()
    n = len(flat)
    shp = x.shape
    for i in range(n):
        for j in range(i+1, n):
            flat[i], flat[j] = flat[j], flat[i]
            s = nselfpair(flat.reshape(shp))
            flat[i], flat[j] = flat[j], flat[i]
            check(s >= base, "%s: exchange (%d,%d) reduces self pairings %d -> %d" % (label, i, j, base, s))

def check_even_multiplicity(x, decn, label):
    """Subset clause: every member of decn used floor or ceil of (size/len) times, nothing else used."""
    vals, cnts = numpy.unique(x, return_counts=True)
    check(set(vals.tolist()) <= set(decn.tolist()), label + ": refers to individuals outside the solution")
    q, r = divmod(x.size, len(decn))
    full = dict(zip(vals.tolist(), cnts.tolist()))
    allc = [full.get(int(e), 0) for e in decn.tolist()]
    check(all(c in (q, q + (1 if r else 0)) for c in allc), label + ": multiplicities not even: %r" % (allc,))
    check(sum(allc) == x.size, label + ": multiplicity total")

################################################################################
# input builders
################################################################################
def make_pgmat(ntaxa, nvrnt, seed, nchr = 2):
    rng = numpy.random.default_rng(seed)
    mat = rng.integers(0, 2, size = (2, ntaxa, nvrnt)).astype("int8")
    taxa = numpy.array(["t%03d" % i for i in range(ntaxa)], dtype = object)
    taxa_grp = numpy.repeat(1, ntaxa)
    chrgrp = numpy.sort(numpy.arange(nvrnt) % nchr) + 1
    phypos = numpy.concatenate([numpy.arange(1, (chrgrp == c).sum() + 1) * 1000 for c in range(1, nchr + 1)])
    genpos = phypos / 1.0e5
    pgmat = DensePhasedGenotypeMatrix(
        mat = mat,
        taxa = taxa,
        taxa_grp = taxa_grp,
        vrnt_chrgrp = chrgrp,
        vrnt_phypos = phypos,
        vrnt_name = numpy.array(["v%03d" % i for i in range(nvrnt)], dtype = object),
        vrnt_genpos = genpos,
    )
    pgmat.group_vrnt()
    return pgmat

def make_bvmat(ntaxa, ntrait, seed, ties = False):
    rng = numpy.random.default_rng(seed)
    mat = rng.normal(size = (ntaxa, ntrait))
    if ties:
        mat = numpy.round(mat)      # many exact ties
    taxa = numpy.array(["t%03d" % i for i in range(ntaxa)], dtype = object)
    return DenseBreedingValueMatrix(
        mat = mat,
        location = numpy.linspace(10.0, 20.0, ntrait),
        scale = numpy.linspace(1.0, 3.0, ntrait),
        taxa = taxa,
        taxa_grp = numpy.repeat(1, ntaxa),
        trait = numpy.array(["y%d" % i for i in range(ntrait)], dtype = object),
    )

def make_gpmod(nvrnt, ntrait, seed):
    rng = numpy.random.default_rng(seed)
    return DenseAdditiveLinearGenomicModel(
        beta = rng.normal(size = (1, ntrait)),
        u_misc = None,
        u_a = rng.normal(size = (nvrnt, ntrait)),
        trait = numpy.array(["y%d" % i for i in range(ntrait)], dtype = object),
        model_name = "demo",
        hyperparams = None,
    )

################################################################################
# exact optimisers used for the multi-objective / real paths
################################################################################
def nondominated(obj):
    """Boolean mask of non-dominated rows for minimisation."""
    n = obj.shape[0]
    keep = numpy.ones(n, dtype = bool)
    for i in range(n):
        dom = numpy.all(obj <= obj[i], axis = 1) & numpy.any(obj < obj[i], axis = 1)
        if dom.any():
            keep[i] = False
    return keep

class ExhaustiveSubsetPareto(SubsetOptimizationAlgorithm):
    """Enumerate every subset and return the exact non-dominated set (small problems only)."""
    def __init__(self, **kwargs):
        self.ncall = 0
    def minimize(self, prob, miscout = None, **kwargs):
        self.ncall += 1
        combos = [numpy.array(c) for c in itertools.combinations(prob.decn_space.tolist(), prob.ndecn)]
        evals = [prob.evalfn(c) for c in combos]
        obj = numpy.stack([e[0] for e in evals])
        ineqcv = numpy.stack([e[1] for e in evals])
        eqcv = numpy.stack([e[2] for e in evals])
        mask = nondominated(obj)
        decn = numpy.stack(combos)[mask]
        return SubsetSolution(
            ndecn = prob.ndecn, decn_space = prob.decn_space,
            decn_space_lower = prob.decn_space_lower, decn_space_upper = prob.decn_space_upper,
            nobj = prob.nobj, obj_wt = prob.obj_wt,
            nineqcv = prob.nineqcv, ineqcv_wt = prob.ineqcv_wt,
            neqcv = prob.neqcv, eqcv_wt = prob.eqcv_wt,
            nsoln = int(mask.sum()), soln_decn = decn, soln_obj = obj[mask],
            soln_ineqcv = ineqcv[mask], soln_eqcv = eqcv[mask],
        )

class FixedRealAlgorithm(RealOptimizationAlgorithm):
    """'Optimiser' returning a prescribed list of contribution vectors (all evaluated with the problem)."""
    def __init__(self, decns, **kwargs):
        self.decns = [numpy.asarray(d, dtype = float) for d in decns]
    def minimize(self, prob, miscout = None, **kwargs):
        evals = [prob.evalfn(d) for d in self.decns]
        return RealSolution(
            ndecn = prob.ndecn, decn_space = prob.decn_space,
            decn_space_lower = prob.decn_space_lower, decn_space_upper = prob.decn_space_upper,
            nobj = prob.nobj, obj_wt = prob.obj_wt,
            nineqcv = prob.nineqcv, ineqcv_wt = prob.ineqcv_wt,
            neqcv = prob.neqcv, eqcv_wt = prob.eqcv_wt,
            nsoln = len(self.decns), soln_decn = numpy.stack(self.decns),
            soln_obj = numpy.stack([e[0] for e in evals]),
            soln_ineqcv = numpy.stack([e[1] for e in evals]),
            soln_eqcv = numpy.stack([e[2] for e in evals]),
        )

################################################################################
# generic checks on a returned configuration
################################################################################
def check_cfg_common(cfg, proto_or_none, pgmat, ncross, nparent, label):
    check(cfg.xconfig.shape == (ncross, nparent), label + ": xconfig shape %r" % (cfg.xconfig.shape,))
    check(cfg.ncross == ncross and cfg.nparent == nparent, label + ": ncross/nparent")
    check(cfg.pgmat is pgmat, label + ": pgmat identity")
    check(cfg.nmating.shape == (ncross,) and cfg.nprogeny.shape == (ncross,), label + ": nmating/nprogeny shape")
    if proto_or_none is not None:
        check(cfg.rng is proto_or_none.rng, label + ": rng identity")
        check(numpy.array_equal(cfg.nmating, proto_or_none.nmating), label + ": nmating forwarded")
        check(numpy.array_equal(cfg.nprogeny, proto_or_none.nprogeny), label + ": nprogeny forwarded")
    rec(label + "/xconfig", cfg.xconfig)
    rec(label + "/xconfig_decn", cfg.xconfig_decn)
    rec(label + "/nmating", cfg.nmating)
    rec(label + "/nprogeny", cfg.nprogeny)

################################################################################
# A. truncation selection on EBVs, subset encoding, exact (sorting) optimiser
################################################################################
def part_A():
    cases = [
        # ntaxa, ntrait(=1), ncross, nparent, nmating, nprogeny, ties, seed
        (12, 4, 2, 1, 10, False, 11),
        (12, 1, 2, 2, 5, False, 12),      # single cross
        (12, 6, 1, 1, 3, False, 13),      # one parent per cross (selfing lists)
        (8, 4, 2, 1, 1, False, 14),       # whole population chosen
        (9, 3, 3, 2, 7, True, 15),        # three-way crosses, tied criteria
        (15, 5, 2, numpy.array([1,2,3,4,5]), numpy.array([5,4,3,2,1]), False, 16),
        (3, 1, 3, 1, 1, False, 17),       # tiny population, everything chosen, one cross
        (20, 2, 4, 3, 2, True, 18),
    ]
    for k, (ntaxa, ncross, nparent, nmating, nprogeny, ties, seed) in enumerate(cases):
        label = "A%d" % k
        pgmat = make_pgmat(ntaxa, 10, seed)
        bvmat = make_bvmat(ntaxa, 1, seed + 100, ties)
        for unscale in (True, False):
            for wt in (-1.0, 1.0):     # the latent value is -EBV: +1 maximises the EBV, -1 minimises it
                sub = "%s/u%d/w%+d" % (label, unscale, int(wt))
                proto = EstimatedBreedingValueSubsetSelection(
                    ntrait = 1, unscale = unscale,
                    ncross = ncross, nparent = nparent, nmating = nmating, nprogeny = nprogeny,
                    nobj = 1, obj_wt = wt,
                    rng = numpy.random.default_rng(seed),
                    soalgo = SortingSubsetOptimizationAlgorithm(),
                    moalgo = ExhaustiveSubsetPareto(),
                )
                # wiring of the constructor chain
                check(proto.ntrait == 1 and proto.unscale == unscale, sub + ": mixin fields")
                check(proto.ncross == ncross and proto.nparent == nparent, sub + ": ncross/nparent stored")
                check(proto.nselindiv == ncross * nparent, sub + ": nselindiv")
                check(proto.nobj == 1 and proto.nineqcv == 0 and proto.neqcv == 0, sub + ": nobj / ncv")
                check(numpy.array_equal(proto.obj_wt, numpy.array([wt])), sub + ": obj_wt")
                check(proto.nmating.shape == (ncross,) and proto.nprogeny.shape == (ncross,), sub + ": nmating shape")
                check(numpy.array_equal(proto.nmating, numpy.zeros(ncross, dtype=int) + nmating), sub + ": nmating value")
                check(numpy.array_equal(proto.nprogeny, numpy.zeros(ncross, dtype=int) + nprogeny), sub + ": nprogeny value")
                check(isinstance(proto.soalgo, SortingSubsetOptimizationAlgorithm), sub + ": soalgo")
                check(isinstance(proto.moalgo, ExhaustiveSubsetPareto), sub + ": moalgo")
                check(proto.ndset_wt == 1.0, sub + ": ndset_wt default")
                rec(sub + "/ndset_trans_kwargs", sorted((kk, vv.tolist()) for kk, vv in proto.ndset_trans_kwargs.items()))

                miscout = {}
                cfg = proto.select(pgmat, None, None, bvmat, None, 0, 10, miscout = miscout)
                check(type(cfg) is SubsetSelectionConfiguration, sub + ": type")
                check_cfg_common(cfg, proto, pgmat, ncross, nparent, sub)
                decn = cfg.xconfig_decn
                check("sosoln" in miscout and "mosoln" not in miscout, sub + ": miscout keys")
                check(numpy.array_equal(miscout["sosoln"].soln_decn[0], decn), sub + ": decn is the solution")
                check(len(decn) == ncross * nparent and len(set(decn.tolist())) == len(decn), sub + ": decn distinct")
                # truncation: exactly the best candidates by criterion (stable ordering on ties)
                crit = bvmat.unscale()[:,0] if unscale else bvmat.mat[:,0]
                cost = wt * (-crit)     # what the optimiser minimises
                order = numpy.argsort(cost, kind = "stable")
                best = order[:ncross*nparent]
                worst_in = cost[decn].max()
                best_out = numpy.delete(cost, decn).min() if len(decn) < ntaxa else numpy.inf
                check(worst_in <= best_out, sub + ": truncation not exact")
                if not ties:
                    check(set(decn.tolist()) == set(best.tolist()), sub + ": truncation set")
                check_even_multiplicity(cfg.xconfig, decn, sub)
                check_exchange_local_optimum(cfg.xconfig, sub)
                if nparent > 1:
                    check(nselfpair(cfg.xconfig) == 0, sub + ": avoidable self pairing left")
                # resample through the public method
                again = cfg.sample_xconfig(return_xconfig = True)
                check(again is cfg.xconfig, sub + ": sample_xconfig returns the stored matrix")
                check_even_multiplicity(again, decn, sub + "/again")
                check_exchange_local_optimum(again, sub + "/again")
                rec(sub + "/again", again)
                check(cfg.sample_xconfig() is None, sub + ": default return_xconfig of the subset configuration")
                rec(sub + "/third", cfg.xconfig)

        # permutation / relabelling equivariance (no ties so the choice is unique)
        if not ties:
            perm = numpy.random.default_rng(seed + 7).permutation(ntaxa)
            bvp = make_bvmat(ntaxa, 1, seed + 100, ties)
            bvp.mat = bvmat.mat[perm].copy()
            bvp.taxa = bvmat.taxa[perm].copy()
            pgp = make_pgmat(ntaxa, 10, seed)
            pgp.mat = pgmat.mat[:,perm,:].copy()
            pgp.taxa = pgmat.taxa[perm].copy()
            res = []
            for bm, pm in ((bvmat, pgmat), (bvp, pgp)):
                proto = EstimatedBreedingValueSubsetSelection(
                    ntrait = 1, unscale = True,
                    ncross = ncross, nparent = nparent, nmating = nmating, nprogeny = nprogeny,
                    nobj = 1, obj_wt = -1.0,
                    rng = numpy.random.default_rng(seed),
                    soalgo = SortingSubsetOptimizationAlgorithm(),
                )
                # moalgo omitted: the default multi-objective algorithm shares the protocol's generator
                check(type(proto.moalgo).__name__ == "NSGA2SubsetGeneticAlgorithm", label + ": default moalgo")
                check(proto.moalgo.rng is proto.rng, label + ": default moalgo rng")
                cfg = proto.select(pm, None, None, bm, None, 0, 10)
                res.append(set(pm.taxa[cfg.xconfig_decn].tolist()))
                check(set(pm.taxa[numpy.unique(cfg.xconfig)].tolist()) == res[-1], label + ": xconfig names")
            check(res[0] == res[1], label + ": permuting the candidates does not permute the choice")
            rec(label + "/perm", sorted(res[0]))

################################################################################
# B. multi-objective EBV subset selection, exact Pareto front
################################################################################
def ndset_sum(mat, **kwargs):
    return mat.sum(1)

def ndset_first(mat, scale = 1.0, **kwargs):
    return scale * mat[:,0]

def part_B():
    from pybrops.breed.prot.sel.prob.trans import trans_ndpt_to_vec_dist
    cases = [
        # ntaxa, ncross, nparent, ndset_wt, ndset_trans, ndset_trans_kwargs, seed
        (7, 2, 2, None, None, None, 21),
        (7, 2, 2, -1.0, None, {"obj_wt": numpy.array([-1.0,-1.0]), "vec_wt": numpy.array([1.0, 3.0])}, 22),
        (8, 3, 1, 1.0, ndset_sum, {}, 23),
        (8, 3, 1, -1.0, ndset_sum, {}, 23),
        (6, 1, 3, 2.5, ndset_first, {"scale": -2.0}, 24),
        (6, 3, 2, -1.0, ndset_first, {"scale": 1.0}, 25),     # whole population: one point on the front
    ]
    for k, (ntaxa, ncross, nparent, nwt, ntr, nkw, seed) in enumerate(cases):
        label = "B%d" % k
        pgmat = make_pgmat(ntaxa, 10, seed)
        bvmat = make_bvmat(ntaxa, 2, seed + 100)
        moalgo = ExhaustiveSubsetPareto()
        proto = EstimatedBreedingValueSubsetSelection(
            ntrait = 2, unscale = True,
            ncross = ncross, nparent = nparent, nmating = 2, nprogeny = 4,
            nobj = 2, obj_wt = numpy.array([-1.0, -1.0]),
            ndset_wt = nwt, ndset_trans = ntr, ndset_trans_kwargs = nkw,
            rng = numpy.random.default_rng(seed),
            soalgo = SortingSubsetOptimizationAlgorithm(),
            moalgo = moalgo,
        )
        check(proto.moalgo is moalgo, label + ": moalgo forwarded")
        check(proto.ndset_wt == (1.0 if nwt is None else nwt), label + ": ndset_wt forwarded")
        check(proto.ndset_trans is (trans_ndpt_to_vec_dist if ntr is None else ntr), label + ": ndset_trans forwarded")
        if nkw is not None:
            check(proto.ndset_trans_kwargs is nkw, label + ": ndset_trans_kwargs forwarded")
        miscout = {}
        cfg = proto.select(pgmat, None, None, bvmat, None, 0, 10, miscout = miscout)
        check(type(cfg) is SubsetSelectionConfiguration, label + ": type")
        check(moalgo.ncall == 1, label + ": moalgo called once")
        check_cfg_common(cfg, proto, pgmat, ncross, nparent, label)
        check("mosoln" in miscout and "sosoln" not in miscout, label + ": miscout keys")
        mosoln = miscout["mosoln"]
        rec(label + "/front", mosoln.soln_obj)
        rec(label + "/front_decn", mosoln.soln_decn)
        # independent evaluation of the declared preference
        score = proto.ndset_wt * proto.ndset_trans(mosoln.soln_obj, **proto.ndset_trans_kwargs)
        ix = int(numpy.argmax(score))
        check(numpy.array_equal(cfg.xconfig_decn, mosoln.soln_decn[ix]), label + ": not the preferred front member")
        check(numpy.all(score <= score[ix]), label + ": preferred score")
        check_even_multiplicity(cfg.xconfig, cfg.xconfig_decn, label)
        check_exchange_local_optimum(cfg.xconfig, label)
        rec(label + "/score", numpy.asarray(score))

################################################################################
# C. mate selection (candidate crosses from a cross map), OHV criterion
################################################################################
def part_C():
    cases = [
        # ntaxa, ncross, nparent, unique_parents, nobj, seed
        (6, 3, 2, True, 1, 31),
        (6, 3, 2, False, 1, 32),
        (5, 4, 3, True, 1, 33),
        (5, 1, 2, True, 1, 34),
        (4, 6, 2, True, 1, 35),     # every candidate cross chosen
        (4, 2, 1, False, 1, 36),    # single-parent "crosses"
        (5, 2, 2, True, 2, 37),
        (4, 3, 2, False, 2, 38),
    ]
    for k, (ntaxa, ncross, nparent, uniq, nobj, seed) in enumerate(cases):
        label = "C%d" % k
        nvrnt = 12
        pgmat = make_pgmat(ntaxa, nvrnt, seed)
        gpmod = make_gpmod(nvrnt, nobj, seed + 100)
        proto = OptimalHaploidValueSubsetSelection(
            ntrait = nobj, nhaploblk = 4, unique_parents = uniq,
            ncross = ncross, nparent = nparent, nmating = 1, nprogeny = 8,
            nobj = nobj, obj_wt = -1.0,
            ndset_wt = -1.0,
            rng = numpy.random.default_rng(seed),
            soalgo = SortingSubsetOptimizationAlgorithm(),
            moalgo = ExhaustiveSubsetPareto(),
        )
        miscout = {}
        cfg = proto.select(pgmat, None, None, None, gpmod, 0, 10, miscout = miscout)
        check(type(cfg) is SubsetMateSelectionConfiguration, label + ": type")
        check_cfg_common(cfg, proto, pgmat, ncross, nparent, label)
        soln = miscout["sosoln"] if nobj == 1 else miscout["mosoln"]
        # reference cross map
        if uniq:
            ref = numpy.array(list(itertools.combinations(range(ntaxa), nparent)))
        else:
            ref = numpy.array(list(itertools.combinations_with_replacement(range(ntaxa), nparent)))
        check(numpy.array_equal(cfg.xconfig_xmap, ref), label + ": cross map")
        check(cfg.xconfig_xmap is soln.decn_space_xmap, label + ": cross map identity")
        rec(label + "/xmap", cfg.xconfig_xmap)
        decn = cfg.xconfig_decn
        check(len(decn) == ncross and len(set(decn.tolist())) == ncross, label + ": decn")
        # every chosen candidate cross appears exactly once in the cross list
        rows = sorted(map(tuple, cfg.xconfig.tolist()))
        check(rows == sorted(map(tuple, ref[decn].tolist())), label + ": cross list is not the chosen crosses")
        if nobj == 1:
            check(numpy.array_equal(soln.soln_decn[0], decn), label + ": decn is the solution")
            # exact truncation on the per-cross criterion
            prob = proto.problem(pgmat, None, None, None, gpmod, 0, 10)
            crit = numpy.array([prob.evalfn(numpy.array([e]))[0][0] for e in prob.decn_space])
            check(crit[decn].max() <= (numpy.delete(crit, decn).min() if ncross < len(crit) else numpy.inf), label + ": truncation")
        else:
            score = proto.ndset_wt * proto.ndset_trans(soln.soln_obj, **proto.ndset_trans_kwargs)
            ix = int(numpy.argmax(score))
            check(numpy.array_equal(decn, soln.soln_decn[ix]), label + ": not the preferred front member")
            rec(label + "/front", soln.soln_obj)
        again = cfg.sample_xconfig()
        check(again is cfg.xconfig, label + ": default return_xconfig of the mate configuration")
        check(sorted(map(tuple, again.tolist())) == rows, label + ": resample")
        rec(label + "/again", again)

################################################################################
# D. configurations built directly from prescribed solutions
################################################################################
def exc_name(fn):
    try:
        fn()
    except Exception as e:
        return type(e).__name__ + ":" + str(e)
    return "no exception"

def part_D():
    pgmat = make_pgmat(10, 10, 41)
    # subsets
    for k, (ncross, nparent, decn, seed) in enumerate([
            (4, 2, numpy.array([9,3,5,0,1,7,2,8]), 1),
            (5, 2, numpy.array([4,6,1]), 2),            # fewer members than slots: tiling
            (3, 3, numpy.array([2,2+5]), 3),            # self pairings unavoidable
            (2, 2, numpy.array([8]), 4),                # one individual only
            (6, 1, numpy.array([0,9]), 5),
            (3, 2, numpy.array([1,2,3,4,5,6,7,8,9]), 6),# more members than slots
        ]):
        label = "Dsub%d" % k
        rng = numpy.random.default_rng(seed)
        cfg = SubsetSelectionConfiguration(ncross, nparent, 1, 1, pgmat, decn, rng)
        check_cfg_common(cfg, None, pgmat, ncross, nparent, label)
        check(cfg.xconfig_decn is decn and cfg.rng is rng, label + ": stored by reference")
        if ncross * nparent >= len(decn):
            check_even_multiplicity(cfg.xconfig, decn, label)
        else:
            check(set(cfg.xconfig.ravel().tolist()) <= set(decn.tolist()), label + ": members")
            check(len(set(cfg.xconfig.ravel().tolist())) == cfg.xconfig.size, label + ": no repeats when enough members")
        check_exchange_local_optimum(cfg.xconfig, label)
    # contribution vectors
    for k, (ncross, nparent, decn, seed) in enumerate([
            (5, 2, numpy.array([0.1,0.0,0.3,0.0,0.2,0.0,0.0,0.15,0.25,0.0]), 1),
            (4, 2, numpy.repeat(0.1, 10), 2),
            (6, 2, numpy.array([0.5,0.5,0,0,0,0,0,0,0,0.0]), 3),
            (3, 3, numpy.array([3.0,1.0,2.0,0,0,0,0,0,0,3.0]), 4),   # unnormalised
            (7, 1, numpy.array([0,0,0,0,0,0,0,0,0,1.0]), 5),         # one contributor
            (10, 2, numpy.array([0.31,0.01,0.02,0.2,0.06,0.1,0.1,0.05,0.05,0.1]), 6),
        ]):
        label = "Dreal%d" % k
        rng = numpy.random.default_rng(seed)
        cfg = RealSelectionConfiguration(ncross, nparent, 2, 3, pgmat, decn, rng)
        check_cfg_common(cfg, None, pgmat, ncross, nparent, label)
        check(cfg.xconfig_decn is decn and cfg.rng is rng, label + ": stored by reference")
        share = decn / decn.sum() * (ncross * nparent)
        cnt = numpy.bincount(cfg.xconfig.ravel(), minlength = len(decn))
        check(numpy.all(numpy.abs(cnt - share) < 1.0 + 1e-9), label + ": not within one of the proportional share: %r vs %r" % (cnt, share))
        check(numpy.all(cnt[decn == 0.0] == 0), label + ": non-contributor used")
        check_exchange_local_optimum(cfg.xconfig, label)
        out = cfg.sample_xconfig()
        check(out is cfg.xconfig, label + ": default return_xconfig of the real configuration")
        cnt = numpy.bincount(out.ravel(), minlength = len(decn))
        check(numpy.all(numpy.abs(cnt - share) < 1.0 + 1e-9), label + ": resample share")
        rec(label + "/again", out)
    # integer and binary encodings
    for k, (ncross, nparent, decn, seed) in enumerate([
            (4, 2, numpy.array([2,0,1,0,3,0,0,1,1,0]), 1),
            (3, 2, numpy.array([6,0,0,0,0,0,0,0,0,0]), 2),
            (4, 2, numpy.array([1,0,0,0,1,0,0,0,0,0]), 3),     # fewer than slots: tiled
        ]):
        label = "Dint%d" % k
        rng = numpy.random.default_rng(seed)
        cfg = IntegerSelectionConfiguration(ncross, nparent, 1, 1, pgmat, decn, rng)
        check_cfg_common(cfg, None, pgmat, ncross, nparent, label)
        cnt = numpy.bincount(cfg.xconfig.ravel(), minlength = len(decn))
        q = (ncross * nparent) // decn.sum()
        check(numpy.all(cnt >= q * decn) and numpy.all(cnt <= (q+1) * decn), label + ": multiplicities %r" % (cnt,))
        check_exchange_local_optimum(cfg.xconfig, label)
    for k, (ncross, nparent, decn, seed) in enumerate([
            (3, 2, numpy.array([1,0,1,0,1,0,1,1,1,0]), 1),
            (2, 2, numpy.array([0,0,0,1,0,0,0,0,0,1]), 2),
        ]):
        label = "Dbin%d" % k
        rng = numpy.random.default_rng(seed)
        cfg = BinarySelectionConfiguration(ncross, nparent, 1, 1, pgmat, decn, rng)
        check_cfg_common(cfg, None, pgmat, ncross, nparent, label)
        check_even_multiplicity(cfg.xconfig, numpy.flatnonzero(decn), label)
        check_exchange_local_optimum(cfg.xconfig, label)
    # mate configurations
    for k, (ncross, nparent, uniq, decn, seed) in enumerate([
            (3, 2, True, numpy.array([44, 0, 17]), 1),
            (4, 2, False, numpy.array([54, 0]), 2),            # tiling of candidate crosses
            (2, 3, True, numpy.array([119, 3]), 3),
        ]):
        label = "Dmate%d" % k
        xmap = numpy.array(list(xmapix(10, nparent, uniq)))
        rng = numpy.random.default_rng(seed)
        cfg = SubsetMateSelectionConfiguration(ncross, nparent, 1, 1, pgmat, decn, xmap, rng)
        check_cfg_common(cfg, None, pgmat, ncross, nparent, label)
        check(cfg.xconfig_xmap is xmap, label + ": xmap stored")
        rows = set(map(tuple, cfg.xconfig.tolist()))
        check(rows == set(map(tuple, xmap[decn].tolist())), label + ": rows")
        q, r = divmod(ncross, len(decn))
        for e in decn:
            c = sum(1 for row in cfg.xconfig.tolist() if row == xmap[e].tolist())
            check(c in (q, q + (1 if r else 0)), label + ": multiplicity of cross %d = %d" % (e, c))
    # arguments that were already invalid stay invalid (same exception, same text)
    good = numpy.array([1,2,3,4])
    rng = numpy.random.default_rng(9)
    rec("Dexc", [
        exc_name(lambda: SubsetSelectionConfiguration(2, 2, 1, 1, pgmat, [1,2,3,4], rng)),
        exc_name(lambda: SubsetSelectionConfiguration(2, 2, 1, 1, pgmat, numpy.array([[1,2],[3,4]]), rng)),
        exc_name(lambda: SubsetSelectionConfiguration(2, 2, 1, 1, pgmat, numpy.array([1.0,2.0]), rng)),
        exc_name(lambda: SubsetSelectionConfiguration(0, 2, 1, 1, pgmat, good, rng)),
        exc_name(lambda: SubsetSelectionConfiguration(2, 2.0, 1, 1, pgmat, good, rng)),
        exc_name(lambda: SubsetSelectionConfiguration(2, 2, 0, 1, pgmat, good, rng)),
        exc_name(lambda: SubsetSelectionConfiguration(2, 2, 1, numpy.array([1,2,3]), pgmat, good, rng)),
        exc_name(lambda: SubsetSelectionConfiguration(2, 2, 1, 1, "pgmat", good, rng)),
        exc_name(lambda: SubsetSelectionConfiguration(2, 2, 1, 1, pgmat, good, "rng")),
        exc_name(lambda: RealSelectionConfiguration(2, 2, 1, 1, pgmat, [0.5,0.5], rng)),
        exc_name(lambda: RealSelectionConfiguration(2, 2, 1, 1, pgmat, numpy.array([[0.5,0.5]]), rng)),
        exc_name(lambda: RealSelectionConfiguration(2, 2, 1, 1, pgmat, numpy.array([1,1]), rng)),
        exc_name(lambda: RealSelectionConfiguration(2, 2, 1, 1, pgmat, None, rng)),
        exc_name(lambda: SubsetMateSelectionConfiguration(2, 2, 1, 1, pgmat, numpy.array([0,1]), numpy.array([[0,1,2]]), rng)),
        exc_name(lambda: SubsetMateSelectionConfiguration(2, 2, 1, 1, pgmat, numpy.array([0,1]), numpy.array([0,1]), rng)),
        exc_name(lambda: EstimatedBreedingValueSubsetSelection(1, True, 2, 2, 1, 1, 0)),
        exc_name(lambda: EstimatedBreedingValueSubsetSelection(1, True, 2, 0, 1, 1, 1)),
        exc_name(lambda: EstimatedBreedingValueSubsetSelection(1, "yes", 2, 2, 1, 1, 1)),
        exc_name(lambda: EstimatedBreedingValueSubsetSelection(1, True, 2, 2, 1, 1, 1, soalgo = "x")),
        exc_name(lambda: EstimatedBreedingValueSubsetSelection(1, True, 2, 2, 1, 1, 1, obj_wt = "x")),
        exc_name(lambda: EstimatedBreedingValueSubsetSelection(1, True, 2, 2, 1, 1, 1, soalgo = SortingSubsetOptimizationAlgorithm()).select("pgmat", None, None, None, None, 0, 1)),
    ])
    # the setter of an existing configuration
    cfg = SubsetSelectionConfiguration(2, 2, 1, 1, pgmat, good, numpy.random.default_rng(3))
    new = numpy.array([7,8,9,6])
    cfg.xconfig_decn = new
    check(cfg.xconfig_decn is new, "Dset: subset setter")
    check(set(cfg.sample_xconfig(True).ravel().tolist()) == {6,7,8,9}, "Dset: resample uses the new decision")
    rec("Dset/sub", cfg.xconfig)
    rec("Dset/exc", [exc_name(lambda: setattr(cfg, "xconfig_decn", numpy.array([0.5]))), cfg.xconfig_decn.tolist()])
    cfg = RealSelectionConfiguration(2, 2, 1, 1, pgmat, numpy.repeat(0.1, 10), numpy.random.default_rng(3))
    new = numpy.array([0,0,0,0,0,0.5,0.5,0,0,0])
    cfg.xconfig_decn = new
    check(cfg.xconfig_decn is new, "Dset: real setter")
    check(set(cfg.sample_xconfig(True).ravel().tolist()) == {5,6}, "Dset: real resample uses the new decision")
    rec("Dset/real", cfg.xconfig)
    rec("Dset/excreal", [exc_name(lambda: setattr(cfg, "xconfig_decn", numpy.array([1,2]))), cfg.xconfig_decn.tolist()])

################################################################################
# E. contribution vectors through the protocol (prescribed optimiser output)
################################################################################
def part_E():
    ntaxa = 8
    pgmat = make_pgmat(ntaxa, 10, 51)
    bvmat = make_bvmat(ntaxa, 2, 52)
    d0 = numpy.array([0.4,0.0,0.1,0.0,0.0,0.3,0.2,0.0])
    d1 = numpy.repeat(1.0/ntaxa, ntaxa)
    d2 = numpy.array([0.0,0.5,0.0,0.5,0.0,0.0,0.0,0.0])
    for k, (nobj, decns, ncross, nparent, seed) in enumerate([
            (1, [d0], 5, 2, 1),
            (1, [d2, d0], 4, 2, 2),     # the FIRST solution is used for single objective
            (2, [d0, d1, d2], 4, 2, 3),
            (2, [d1], 3, 3, 4),
        ]):
        label = "E%d" % k
        proto = EstimatedBreedingValueRealSelection(
            ntrait = nobj, unscale = False,
            ncross = ncross, nparent = nparent, nmating = 1, nprogeny = 2,
            nobj = nobj, obj_wt = -1.0, ndset_wt = -1.0,
            rng = numpy.random.default_rng(seed),
            soalgo = FixedRealAlgorithm(decns), moalgo = FixedRealAlgorithm(decns),
        )
        bm = bvmat if nobj == 2 else make_bvmat(ntaxa, 1, 53)
        miscout = {}
        cfg = proto.select(pgmat, None, None, bm, None, 0, 10, miscout = miscout)
        check(type(cfg) is RealSelectionConfiguration, label + ": type")
        check_cfg_common(cfg, proto, pgmat, ncross, nparent, label)
        soln = miscout["sosoln"] if nobj == 1 else miscout["mosoln"]
        if nobj == 1:
            ix = 0
        else:
            score = proto.ndset_wt * proto.ndset_trans(soln.soln_obj, **proto.ndset_trans_kwargs)
            ix = int(numpy.argmax(score))
            rec(label + "/score", numpy.asarray(score))
        decn = soln.soln_decn[ix]
        check(numpy.array_equal(cfg.xconfig_decn, decn), label + ": decn")
        share = decn / decn.sum() * (ncross * nparent)
        cnt = numpy.bincount(cfg.xconfig.ravel(), minlength = ntaxa)
        check(numpy.all(numpy.abs(cnt - share) < 1.0 + 1e-9), label + ": share")
        check_exchange_local_optimum(cfg.xconfig, label)

################################################################################
# F. the helpers on their own
################################################################################
def part_F():
    for n in range(0, 7):
        for k in range(1, 5):
            a = list(triuix(n, k)); b = list(triudix(n, k))
            check(a == [list(c) for c in itertools.combinations_with_replacement(range(n), k)], "F: triuix(%d,%d)" % (n, k))
            check(b == [list(c) for c in itertools.combinations(range(n), k)], "F: triudix(%d,%d)" % (n, k))
            check(list(xmapix(n, k, True)) == b and list(xmapix(n, k, False)) == a, "F: xmapix(%d,%d)" % (n, k))
            check(all(type(e) is list for e in a + b), "F: element type")
            rec("F/triu/%d/%d" % (n, k), a)
            rec("F/triud/%d/%d" % (n, k), b)
    # generators are lazy and yield fresh lists
    g = triudix(5, 2); first = next(g); first.append(99); second = next(g)
    check(second == [0, 2], "F: yielded lists are independent")
    for seed in range(6):
        rng = numpy.random.default_rng(seed)
        a = numpy.arange(3 + seed) * 2
        for size in ((4, 2), (1, 1), (3, 3), 5, (2, 5)):
            out = tiled_choice(a, size = size, replace = False, rng = rng)
            rec("F/tiled/%d/%r" % (seed, size), out)
            q, r = divmod(out.size, len(a))
            cnt = numpy.array([(out == e).sum() for e in a])
            check(numpy.all((cnt == q) | (cnt == q + 1)) and cnt.sum() == out.size, "F: tiled_choice counts")
            out2 = tiled_choice(a, size = size, replace = True, rng = rng)
            rec("F/tiledrep/%d/%r" % (seed, size), out2)
        for shape in ((4, 2), (3, 3), (1, 4), (5, 1), (2, 2)):
            x = rng.integers(0, 4, size = shape)
            before = numpy.sort(x.ravel())
            outcross_shuffle(x, rng = rng)
            check(numpy.array_equal(numpy.sort(x.ravel()), before), "F: outcross_shuffle keeps the multiset")
            check_exchange_local_optimum(x, "F/outcross/%d/%r" % (seed, shape))
            rec("F/outcross/%d/%r" % (seed, shape), x)
            rows = sorted(sorted(r) for r in x.tolist())
            axis_shuffle(x, 0, rng = rng)
            rec("F/axis/%d/%r" % (seed, shape), x)
            cols_before = before
            check(numpy.array_equal(numpy.sort(x.ravel()), cols_before), "F: axis_shuffle keeps the multiset")
        p = rng.random(7); p[2] = 0.0
        out = stochastic_universal_sampling(numpy.arange(7), p, size = (5, 2), rng = rng)
        rec("F/sus/%d" % seed, out)
        cnt = numpy.bincount(out.ravel(), minlength = 7)
        check(numpy.all(numpy.abs(cnt - p / p.sum() * 10) < 1.0 + 1e-9), "F: SUS share")
    # contiguity: the shuffle must act on the caller's array, also for a non-owning view
    base = numpy.array([[0,0],[1,1],[2,2],[3,3]])
    view = base[:]
    outcross_shuffle(view, rng = numpy.random.default_rng(0))
    check(nselfpair(base) == 0, "F: outcross_shuffle works in place")
    rec("F/inplace", base)

################################################################################
def main():
    print("pybrops from:", pybrops.__file__)
    part_A(); part_B(); part_C(); part_D(); part_E(); part_F()
    h = hashlib.sha256()
    per = {}
    for label, b in RECORD:
        h.update(label.encode()); h.update(b"\0"); h.update(b); h.update(b"\1")
        key = label[0] if not label.startswith("D") else label.split("/")[0].rstrip("0123456789")
        hh = per.setdefault(key, hashlib.sha256()); hh.update(label.encode()); hh.update(b)
    for key in sorted(per):
        print("  part %-6s %s" % (key, per[key].hexdigest()[:32]))
    digest = h.hexdigest()
    print("records: %d   property checks passed: %d" % (len(RECORD), NCHECK[0]))
    print("DIGEST", digest)
    if digest != EXPECTED_DIGEST:
        print("DIGEST MISMATCH: expected", EXPECTED_DIGEST)
        sys.exit(2)
    print("OK: all outputs bit-for-bit equal to the reference run")

if __name__ == "__main__":
    main()
