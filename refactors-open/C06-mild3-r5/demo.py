#!/usr/bin/env python3
"""
Demonstration / regression program for property C06
("optimisers return feasible solutions with truthful objective values").

Runs every optimiser class of pybrops.opt.algo on a grid of small problems
(subset / real / integer / binary, 1-3 objectives, with and without
inequality / equality constraints, edge cases  n == k  and  k == 1),
checks the property on every returned Solution, and folds every returned
number (decisions, objectives, constraint values, wiring attributes of the
problem / solution / operator objects) into a SHA-256 digest which is compared
with the reference digest recorded on the unmodified tree.

Exit status 0  <=>  all property checks hold AND digest == reference.
"""
import numpy
numpy.float_ = numpy.float64          # shim: pybrops was written for numpy 1.x
numpy.in1d = numpy.isin

import hashlib
import inspect
import itertools
import sys

import pybrops
from pybrops.opt.prob.SubsetProblem import SubsetProblem
from pybrops.opt.prob.RealProblem import RealProblem
from pybrops.opt.prob.IntegerProblem import IntegerProblem
from pybrops.opt.prob.BinaryProblem import BinaryProblem
from pybrops.opt.soln.SubsetSolution import SubsetSolution
from pybrops.opt.algo.SortingSubsetOptimizationAlgorithm import SortingSubsetOptimizationAlgorithm
from pybrops.opt.algo.SteepestDescentSubsetHillClimber import SteepestDescentSubsetHillClimber
from pybrops.opt.algo.SortingSteepestDescentSubsetHillClimber import SortingSteepestDescentSubsetHillClimber
from pybrops.opt.algo.SubsetGeneticAlgorithm import SubsetGeneticAlgorithm
from pybrops.opt.algo.RealGeneticAlgorithm import RealGeneticAlgorithm
from pybrops.opt.algo.IntegerGeneticAlgorithm import IntegerGeneticAlgorithm
from pybrops.opt.algo.BinaryGeneticAlgorithm import BinaryGeneticAlgorithm
from pybrops.opt.algo.NSGA2SubsetGeneticAlgorithm import NSGA2SubsetGeneticAlgorithm
from pybrops.opt.algo.NSGA2RealGeneticAlgorithm import NSGA2RealGeneticAlgorithm
from pybrops.opt.algo.NSGA2IntegerGeneticAlgorithm import NSGA2IntegerGeneticAlgorithm
from pybrops.opt.algo.NSGA2BinaryGeneticAlgorithm import NSGA2BinaryGeneticAlgorithm
from pybrops.opt.algo.NSGA3SubsetGeneticAlgorithm import NSGA3SubsetGeneticAlgorithm
from pybrops.opt.algo import pymoo_addon
from pybrops.opt.algo.pymoo_addon import SubsetRandomSampling
from pybrops.opt.algo.pymoo_addon import ReducedExchangeCrossover
from pybrops.opt.algo.pymoo_addon import ReducedExchangeMutation
from pybrops.opt.algo.pymoo_addon import IntegerSimulatedBinaryCrossover
from pybrops.opt.algo.pymoo_addon import IntegerPolynomialMutation

# reference digest, recorded by running this program on the unmodified tree
REFERENCE = "79dae0db30f1211132649ad460ca2daf82290a4bfc86cd6f02e1da610a4e6cb9"

import os
TRACE = open(os.environ["DEMO_TRACE"], "w") if os.environ.get("DEMO_TRACE") else None   # optional per-record trace
FAILURES = []
DIGEST = hashlib.sha256()
NREC = [0]

def fail(msg):
    FAILURES.append(msg)
    print("PROPERTY VIOLATION:", msg)

def rec(tag, value):
    """fold a value into the global digest (exact bytes for arrays)"""
    NREC[0] += 1
    if TRACE is not None and not isinstance(value, (list, tuple)):
        TRACE.write("%s %s\n" % (tag, hashlib.sha256(repr(value.tolist() if isinstance(value, numpy.ndarray) else value).encode()).hexdigest()[:12]))
    DIGEST.update(tag.encode())
    if isinstance(value, numpy.ndarray):
        DIGEST.update(str(value.dtype).encode())
        DIGEST.update(str(value.shape).encode())
        DIGEST.update(numpy.ascontiguousarray(value).tobytes())
    elif isinstance(value, (list, tuple)):
        for i, v in enumerate(value):
            rec("%s[%d]" % (tag, i), v)
    elif isinstance(value, float):
        DIGEST.update(numpy.float64(value).tobytes())
    else:
        DIGEST.update(repr(value).encode())

################################################################################
# problems
################################################################################
class SubP(SubsetProblem):
    """subset problem: separable objectives, parity inequality, modular equality"""
    def __init__(self, w, cap, **kw):
        self.w = w          # (nobj, n) objective data
        self.cap = cap      # how many 'even' members are tolerated
        n, k = w.shape[1], kw["ndecn"]
        feas = (list(range(1, n, 2)) + list(range(0, n, 2)))[:k]    # a subset satisfying both constraints
        self.par = sum(feas) % 2
        super(SubP, self).__init__(**kw)
    def _ix(self, x):
        return (numpy.asarray(x) - 10) // 3
    def evalfn(self, x, *args, **kwargs):
        ix = self._ix(x)
        obj = self.obj_wt * self.w[:, ix].sum(1)
        g = numpy.array([max(0.0, float((ix % 2 == 0).sum()) - self.cap)])[:self.nineqcv]
        h = numpy.array([float(abs(int(ix.sum()) % 2 - self.par))])[:self.neqcv]
        return obj, self.ineqcv_wt * g, self.eqcv_wt * h

class VecMixin:
    def _setup(self, c, b):
        self.c = c          # (nobj, ndecn) target points
        self.b = b          # bound on the sum of the decision
    def evalfn(self, x, *args, **kwargs):
        x = numpy.asarray(x)
        xf = x.astype(float)
        obj = self.obj_wt * ((xf[None, :] - self.c) ** 2).sum(1)
        g = numpy.array([max(0.0, xf.sum() - self.b)])[:self.nineqcv]
        h = numpy.zeros(self.neqcv)
        return obj, self.ineqcv_wt * g, self.eqcv_wt * h

class RealP(VecMixin, RealProblem):
    def __init__(self, c, b, **kw):
        self._setup(c, b)
        RealProblem.__init__(self, **kw)

class IntP(VecMixin, IntegerProblem):
    def __init__(self, c, b, **kw):
        self._setup(c, b)
        IntegerProblem.__init__(self, **kw)

class BinP(VecMixin, BinaryProblem):
    def __init__(self, c, b, **kw):
        self._setup(c, b)
        BinaryProblem.__init__(self, **kw)

def problem_state(prob):
    """everything an optimiser could (wrongly) modify"""
    h = hashlib.sha256()
    for name in ("ndecn", "nobj", "nineqcv", "neqcv", "n_var", "n_obj", "n_ieq_constr", "n_eq_constr",
                 "elementwise", "strict", "vtype", "callback", "replace_nan_values_by",
                 "exclude_from_serialization"):
        h.update(repr((name, getattr(prob, name))).encode())
    for name in ("decn_space", "decn_space_lower", "decn_space_upper", "obj_wt", "ineqcv_wt", "eqcv_wt", "xl", "xu"):
        v = getattr(prob, name)
        h.update(name.encode())
        h.update(repr(None).encode() if v is None else (str(v.dtype) + str(v.shape)).encode() + v.tobytes())
    for name in ("w", "c"):
        if hasattr(prob, name):
            h.update(getattr(prob, name).tobytes())
    return h.hexdigest()

################################################################################
# property checks
################################################################################
def check_common(tag, prob, soln, multi):
    X, F, G, H = soln.soln_decn, soln.soln_obj, soln.soln_ineqcv, soln.soln_eqcv
    if X.shape != (soln.nsoln, prob.ndecn): fail(tag + ": decision shape")
    if F.shape != (soln.nsoln, prob.nobj): fail(tag + ": objective shape")
    if G.shape != (soln.nsoln, prob.nineqcv): fail(tag + ": ineqcv shape")
    if H.shape != (soln.nsoln, prob.neqcv): fail(tag + ": eqcv shape")
    if not multi and soln.nsoln != 1: fail(tag + ": single objective must return one solution")
    # truthful values: bitwise equal to a fresh evaluation
    for i in range(soln.nsoln):
        f, g, h = prob.evalfn(X[i])
        if not (numpy.array_equal(f, F[i]) and numpy.array_equal(g, G[i]) and numpy.array_equal(h, H[i])):
            fail(tag + ": reported values differ from fresh evaluation at row %d" % i)
    # no returned member dominated by another
    if multi:
        cv = G.sum(1) + H.sum(1)
        for i in range(soln.nsoln):
            for j in range(soln.nsoln):
                if i != j and cv[i] <= 0.0 and cv[j] <= 0.0:
                    if numpy.all(F[j] <= F[i]) and numpy.any(F[j] < F[i]):
                        fail(tag + ": solution %d dominated by %d" % (i, j))
    # wiring of the descriptive fields of the Solution
    for name in ("ndecn", "nobj", "nineqcv", "neqcv"):
        if getattr(soln, name) != getattr(prob, name): fail(tag + ": solution.%s != problem.%s" % (name, name))
    for name in ("obj_wt", "ineqcv_wt", "eqcv_wt", "decn_space"):
        a, b = getattr(soln, name), getattr(prob, name)
        if not ((a is None and b is None) or numpy.array_equal(a, b)): fail(tag + ": solution.%s != problem.%s" % (name, name))

def check_subset(tag, prob, soln):
    for row in soln.soln_decn:
        if len(set(row.tolist())) != prob.ndecn: fail(tag + ": members not distinct / wrong size")
        if not numpy.all(numpy.isin(row, prob.decn_space)): fail(tag + ": member outside candidate set")
        if row.dtype != prob.decn_space.dtype: fail(tag + ": dtype changed")

def check_vector(tag, prob, soln, kind):
    X = soln.soln_decn
    if numpy.any(X < prob.decn_space_lower) or numpy.any(X > prob.decn_space_upper): fail(tag + ": out of bounds")
    if kind == "int" and not (numpy.issubdtype(X.dtype, numpy.integer) or numpy.all(X == numpy.round(X))): fail(tag + ": non-integer")
    if kind == "bin" and not numpy.all((X == 0) | (X == 1)): fail(tag + ": non-binary")

def lex(prob, x):
    f, g, h = prob.evalfn(x)
    return (g.sum() + h.sum(), f.sum())

def check_local_optimum(tag, prob, soln):
    x = soln.soln_decn[0].copy()
    cv0, sc0 = lex(prob, x)
    rest = prob.decn_space[~numpy.isin(prob.decn_space, x)]
    for i in range(len(x)):
        for e in rest:
            y = x.copy(); y[i] = e
            cv1, sc1 = lex(prob, y)
            if cv1 < cv0 or (cv1 == cv0 and sc1 < sc0):
                fail(tag + ": exchange %d -> %s improves the returned decision" % (i, e))
                return

def check_bruteforce(tag, prob, soln):
    best = min(prob.evalfn(numpy.array(c))[0][0] for c in itertools.combinations(prob.decn_space.tolist(), prob.ndecn))
    got = soln.soln_obj[0, 0]
    if not abs(got - best) <= 1e-12 * max(1.0, abs(best)): fail(tag + ": sorting optimum %r != brute force %r" % (got, best))

def record_solution(tag, soln):
    rec(tag + ".nsoln", int(soln.nsoln))
    rec(tag + ".X", soln.soln_decn)
    rec(tag + ".F", soln.soln_obj)
    rec(tag + ".G", soln.soln_ineqcv)
    rec(tag + ".H", soln.soln_eqcv)
    for name in ("ndecn", "nobj", "nineqcv", "neqcv"):
        rec(tag + "." + name, int(getattr(soln, name)))
    for name in ("decn_space", "decn_space_lower", "decn_space_upper", "obj_wt", "ineqcv_wt", "eqcv_wt"):
        rec(tag + "." + name, getattr(soln, name))

def run(tag, algo, prob, multi, kind, extra = (), digest = True):
    numpy.random.seed(20240607)               # the subset operators draw from the legacy global stream
    before = problem_state(prob)
    misc = {}
    soln = algo.minimize(prob, miscout = misc)
    if problem_state(prob) != before: fail(tag + ": problem object modified")
    check_common(tag, prob, soln, multi)
    if kind == "subset": check_subset(tag, prob, soln)
    else: check_vector(tag, prob, soln, kind)
    for fn in extra: fn(tag, prob, soln)
    if digest:
        record_solution(tag, soln)
    else:
        # outputs not reproducible run-to-run (see below): record only what is determined
        rec(tag + ".shapes", (soln.soln_decn.shape[1], soln.soln_obj.shape[1], soln.soln_ineqcv.shape[1], soln.soln_eqcv.shape[1]))
    for k in sorted(misc): rec(tag + ".misc." + k, float(misc[k]))
    print("%-58s nsoln=%-3d F[0]=%s" % (tag, soln.nsoln, numpy.array2string(soln.soln_obj[0], precision = 6)))
    return soln

################################################################################
# 1. subset problems
################################################################################
def mk_subset(rng, n, k, nobj, nineq, neq, maximise = False):
    w = rng.normal(size = (nobj, n))
    space = 10 + 3 * numpy.arange(n)
    wt = numpy.where(numpy.arange(nobj) % 2 == 1, -1.0, 1.0) if maximise else None
    return SubP(
        w, float(max(1, k // 2)),
        ndecn = k, decn_space = space, decn_space_lower = int(space.min()), decn_space_upper = int(space.max()),
        nobj = nobj, obj_wt = wt, nineqcv = nineq, ineqcv_wt = (2.0 if nineq else None), neqcv = neq, eqcv_wt = None,
    )

data_rng = numpy.random.default_rng(987654321)
subset_grid = [(6, 6), (7, 1), (9, 4), (12, 3)]       # (n, k): n == k and k == 1 are the edge cases
cons_grid = [(0, 0), (1, 0), (1, 1)]

for (n, k) in subset_grid:
    for (nineq, neq) in cons_grid:
        prob = mk_subset(data_rng, n, k, 1, nineq, neq)
        tag = "sub n=%d k=%d g=%d h=%d " % (n, k, nineq, neq)
        extra = (check_bruteforce,) if (nineq, neq) == (0, 0) else ()
        run(tag + "Sorting", SortingSubsetOptimizationAlgorithm(), prob, False, "subset", extra)
        for seed in (11, 12):
            run(tag + "SteepestDescent s%d" % seed, SteepestDescentSubsetHillClimber(rng = numpy.random.default_rng(seed)),
                prob, False, "subset", (check_local_optimum,))
        run(tag + "SortingSteepestDescent", SortingSteepestDescentSubsetHillClimber(), prob, False, "subset", (check_local_optimum,))
        for (seed, ngen, pop) in ((21, 6, 12), (22, 1, 8)):
            run(tag + "SubsetGA s%d g%d p%d" % (seed, ngen, pop),
                SubsetGeneticAlgorithm(ngen = ngen, pop_size = pop, rng = numpy.random.default_rng(seed)), prob, False, "subset")
        # legacy RandomState generator state
        run(tag + "SubsetGA RandomState", SubsetGeneticAlgorithm(ngen = 3, pop_size = 10, rng = numpy.random.RandomState(5)), prob, False, "subset")

for (n, k) in subset_grid:
    for (nineq, neq) in cons_grid:
        for nobj in (2, 3):
            prob = mk_subset(data_rng, n, k, nobj, nineq, neq, maximise = True)
            tag = "sub n=%d k=%d g=%d h=%d m=%d " % (n, k, nineq, neq, nobj)
            run(tag + "NSGA2", NSGA2SubsetGeneticAlgorithm(ngen = 6, pop_size = 16, rng = numpy.random.default_rng(31)), prob, True, "subset")
            # pymoo's NSGA-III tournament (comp_by_cv_then_random) draws from an UNSEEDED generator as soon as the
            # problem has constraints, so its trajectory is not a function of the seed (true on the unmodified tree
            # as well): the property is still checked on whatever comes back, but the numbers stay out of the digest.
            det = (nineq + neq == 0)
            run(tag + "NSGA3", NSGA3SubsetGeneticAlgorithm(ngen = 6, pop_size = 16, nrefpts = (8 if nobj == 2 else 10),
                                                           rng = numpy.random.default_rng(32)), prob, True, "subset", digest = det)
            run(tag + "NSGA3 default refpts", NSGA3SubsetGeneticAlgorithm(ngen = 2, pop_size = (12 if nobj == 2 else 15),
                                                           rng = numpy.random.default_rng(33)), prob, True, "subset", digest = det)

################################################################################
# 2. real / integer / binary vectors
################################################################################
for nd in (1, 4):
    for nineq in (0, 1):
        for nobj in (1, 2):
            multi = nobj > 1
            c = data_rng.uniform(-2.0, 6.0, size = (nobj, nd))
            kw = dict(nobj = nobj, obj_wt = None, nineqcv = nineq, ineqcv_wt = None, neqcv = 0, eqcv_wt = None)
            tag = "vec d=%d g=%d m=%d " % (nd, nineq, nobj)
            # real
            lo, up = numpy.repeat(-3.0, nd), numpy.repeat(5.0, nd)
            rp = RealP(c, 2.0 * nd, ndecn = nd, decn_space = numpy.stack([lo, up]), decn_space_lower = lo, decn_space_upper = up, **kw)
            A = NSGA2RealGeneticAlgorithm if multi else RealGeneticAlgorithm
            run(tag + A.__name__, A(ngen = 5, pop_size = 12, rng = numpy.random.default_rng(41)), rp, multi, "real")
            # integer
            lo, up = numpy.repeat(-3, nd), numpy.repeat(5, nd)
            ip = IntP(c, 2.0 * nd, ndecn = nd, decn_space = numpy.stack([lo, up]), decn_space_lower = lo, decn_space_upper = up, **kw)
            A = NSGA2IntegerGeneticAlgorithm if multi else IntegerGeneticAlgorithm
            for seed in (42, 43):
                run(tag + A.__name__ + " s%d" % seed, A(ngen = 5, pop_size = 12, rng = numpy.random.default_rng(seed)), ip, multi, "int")
            # binary
            lo, up = numpy.repeat(0, nd), numpy.repeat(1, nd)
            bp = BinP(c, float(max(1, nd // 2)), ndecn = nd, decn_space = numpy.stack([lo, up]), decn_space_lower = lo, decn_space_upper = up, **kw)
            A = NSGA2BinaryGeneticAlgorithm if multi else BinaryGeneticAlgorithm
            run(tag + A.__name__, A(ngen = 5, pop_size = 12, rng = numpy.random.default_rng(44)), bp, multi, "bin")

################################################################################
# 3. wiring of constructors / properties (problem, solution, operators)
################################################################################
def cb(*args, **kwargs):
    return None

space = 10 + 3 * numpy.arange(9)
wp = SubP(
    data_rng.normal(size = (2, 9)), 1.0,
    ndecn = 4, decn_space = space, decn_space_lower = 10, decn_space_upper = numpy.repeat(34, 4),
    nobj = 2, obj_wt = numpy.array([1.0, -1.0]), nineqcv = 1, ineqcv_wt = 3.0, neqcv = 1, eqcv_wt = numpy.array([0.5]),
    vtype = int, vars = None, elementwise = True, replace_nan_values_by = 7.5,
    exclude_from_serialization = ("w",), callback = cb, strict = False,
)
for name in ("ndecn", "nobj", "nineqcv", "neqcv", "n_var", "n_obj", "n_ieq_constr", "n_eq_constr", "elementwise",
             "strict", "vtype", "replace_nan_values_by", "exclude_from_serialization"):
    rec("wp." + name, getattr(wp, name))
for name in ("decn_space", "decn_space_lower", "decn_space_upper", "obj_wt", "ineqcv_wt", "eqcv_wt", "xl", "xu"):
    rec("wp." + name, getattr(wp, name))
rec("wp.callback", wp.callback is cb)
rec("wp.elementwise_func", wp.elementwise_func.__name__)
rec("wp.elementwise_runner", type(wp.elementwise_runner).__name__)
rec("wp.data", sorted(wp.data.keys()))
rec("wp.has_bounds", bool(wp.has_bounds()))
rec("wp.has_constraints", bool(wp.has_constraints()))
rec("wp.bounds", list(wp.bounds()))
# pymoo-side evaluation of a matrix of candidates and of a single candidate
Xc = numpy.array([[10, 13, 16, 19], [34, 31, 28, 10], [22, 13, 25, 16]])
out = wp.evaluate(Xc, return_as_dictionary = True)
for key in sorted(out): rec("wp.evaluate." + key, out[key])
out = wp.evaluate(Xc[1], return_as_dictionary = True)
for key in sorted(out): rec("wp.evaluate1." + key, out[key])
# defaults (None -> 0 constraints, weights of one)
dp = SubP(data_rng.normal(size = (1, 9)), 1.0, ndecn = 9, decn_space = space, decn_space_lower = None, decn_space_upper = None, nobj = 1)
for name in ("nineqcv", "neqcv", "n_ieq_constr", "n_eq_constr", "elementwise", "strict", "vtype", "callback", "obj_wt", "ineqcv_wt", "eqcv_wt", "xl", "xu"):
    rec("dp." + name, getattr(dp, name))
# unknown keyword arguments go to pymoo and end up in .data
kp = SubP(data_rng.normal(size = (1, 9)), 1.0, ndecn = 2, decn_space = space, decn_space_lower = 10, decn_space_upper = 34, nobj = 1, flavour = "x")
rec("kp.data", sorted(kp.data.items()))
# invalid arguments are still rejected, with the same exception type and text
def raises(tag, fn):
    try:
        fn()
    except Exception as e:                      # noqa
        rec(tag, (type(e).__name__, str(e)))
        return
    rec(tag, "no exception")
    fail(tag + ": invalid argument accepted")
raises("bad.decn_space", lambda: SubP(numpy.zeros((1, 9)), 1.0, ndecn = 5, decn_space = space[:3], decn_space_lower = 0, decn_space_upper = 1, nobj = 1))
raises("bad.nobj", lambda: SubP(numpy.zeros((1, 9)), 1.0, ndecn = 2, decn_space = space, decn_space_lower = 0, decn_space_upper = 1, nobj = 0))
raises("bad.obj_wt", lambda: SubP(numpy.zeros((1, 9)), 1.0, ndecn = 2, decn_space = space, decn_space_lower = 0, decn_space_upper = 1, nobj = 2, obj_wt = numpy.ones(3)))
raises("bad.strict", lambda: SubP(numpy.zeros((1, 9)), 1.0, ndecn = 2, decn_space = space, decn_space_lower = 0, decn_space_upper = 1, nobj = 1, strict = 1))
raises("bad.algo.single", lambda: SubsetGeneticAlgorithm(ngen = 1, pop_size = 4).minimize(wp))
raises("bad.algo.multi", lambda: NSGA3SubsetGeneticAlgorithm(ngen = 1, pop_size = 4).minimize(dp))
raises("bad.algo.sortsd", lambda: SortingSteepestDescentSubsetHillClimber().minimize(wp))
raises("bad.algo.miscout", lambda: SortingSteepestDescentSubsetHillClimber().minimize(dp, miscout = []))
raises("bad.algo.prob", lambda: NSGA3SubsetGeneticAlgorithm(ngen = 1, pop_size = 4).minimize(object()))
raises("bad.nsga3.nrefpts", lambda: NSGA3SubsetGeneticAlgorithm(ngen = 1, pop_size = 4, nrefpts = 0))
a3 = NSGA3SubsetGeneticAlgorithm(ngen = 3, pop_size = 14)
rec("nsga3.defaults", (a3.ngen, a3.pop_size, a3.nrefpts))

# operators, called directly
from pymoo.core.population import Population
xo = ReducedExchangeCrossover()
rec("xo", (xo.n_parents, xo.n_offsprings, float(xo.prob.value), xo.prob.bounds, xo.prob.strict, xo.vtype))
mu = ReducedExchangeMutation(setspace = space)
rec("mu", (float(mu.prob.value), mu.prob_var is None))
sa = SubsetRandomSampling(setspace = space)
numpy.random.seed(77)
S = sa._do(wp, 6)
rec("sa._do", S)
for row in S:
    if len(set(row.tolist())) != wp.ndecn or not numpy.all(numpy.isin(row, space)): fail("sampling: invalid subset")
numpy.random.seed(78)
Xpar = numpy.stack([S[:3], S[3:]])
C = xo._do(wp, Xpar)
rec("xo._do", C)
for row in C.reshape(-1, wp.ndecn):
    if len(set(row.tolist())) != wp.ndecn or not numpy.all(numpy.isin(row, space)): fail("crossover: invalid subset")
numpy.random.seed(79)
pop = Population.new("X", S)
off = xo.do(wp, pop, parents = numpy.array([[0, 3], [1, 4], [2, 5]]), random_state = numpy.random.default_rng(5))
rec("xo.do", off.get("X"))
M = mu._do(wp, S)
rec("mu._do", M)
for row in M:
    if len(set(row.tolist())) != wp.ndecn or not numpy.all(numpy.isin(row, space)): fail("mutation: invalid subset")

lo, up = numpy.repeat(-3, 5), numpy.repeat(5, 5)
ip = IntP(data_rng.uniform(-2, 6, size = (1, 5)), 10.0, ndecn = 5, decn_space = numpy.stack([lo, up]), decn_space_lower = lo, decn_space_upper = up, nobj = 1)
for dt in (numpy.int64, numpy.int32, numpy.float64):
    Xi = numpy.random.default_rng(9).integers(-3, 6, size = (2, 7, 5)).astype(dt)
    ixo = IntegerSimulatedBinaryCrossover()
    Ci = ixo._do(ip, Xi, random_state = numpy.random.default_rng(10))
    rec("ixo._do." + dt.__name__, Ci)
    imu = IntegerPolynomialMutation()
    Mi = imu._do(ip, Xi[0], random_state = numpy.random.default_rng(11))
    rec("imu._do." + dt.__name__, Mi)
    Mi2 = imu.do(ip, Population.new("X", Xi[1]), random_state = numpy.random.default_rng(12)).get("X")
    rec("imu.do." + dt.__name__, Mi2)
    for name, Z in (("crossover", Ci), ("mutation", Mi)):
        if Z.dtype != Xi.dtype: fail("integer %s: dtype changed" % name)
        if not numpy.all(Z == numpy.round(Z)): fail("integer %s: not integral" % name)
        if numpy.any(Z < -3) or numpy.any(Z > 5): fail("integer %s: out of bounds" % name)

################################################################################
# verdict
################################################################################
digest = DIGEST.hexdigest()
print("pybrops from :", pybrops.__file__)
print("records      :", NREC[0])
print("digest       :", digest)
print("reference    :", REFERENCE)
if FAILURES:
    print("FAILED: %d property violations" % len(FAILURES))
    sys.exit(1)
if digest != REFERENCE:
    print("FAILED: digest differs from reference")
    sys.exit(2)
print("OK: all property checks hold; outputs agree bit-for-bit with the reference")
sys.exit(0)
