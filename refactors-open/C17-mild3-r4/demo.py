#!/usr/bin/env python
"""
Deterministic demonstration / regression program for property C17
(pybrops.core.random.sampling + pybrops.core.util.array.sliceaxisix).

Run:
    cd /tmp/wt/C17p && PYTHONPATH=/tmp/wt/C17p /venv/bin/python /tmp/seed/C17p/<rN>/demo.py

The program
  * drives the four public sampling functions (and the slice-index helper)
    with fixed seeds over a grid of inputs that contains the edge cases named
    in the property (ties, zero weights, widely different magnitudes, scalar /
    tuple / numpy-integer sizes, option sets that do and do not divide the
    sample number, 1-d .. 4-d arrays, cross tables with heavy duplication,
    Generator / RandomState / module-global generator);
  * checks the guarantees of the property on every result;
  * feeds every result (dtype, shape, raw bytes), the generator state left
    behind, and the type + text of every exception raised for invalid input
    into a SHA-256 digest and compares the digest of every section with the
    reference value recorded on the unchanged tree (bit-for-bit comparison, no
    tolerance: none of the refactorings re-associates floating point
    arithmetic).
Exit status 0 = everything agrees; 1 = some check or digest failed.
"""
import numpy
numpy.float_ = numpy.float64
numpy.in1d = numpy.isin

import hashlib
import inspect
import sys
from collections import Counter

import pybrops
from pybrops.core.random import sampling
from pybrops.core.random.sampling import stochastic_universal_sampling
from pybrops.core.random.sampling import tiled_choice
from pybrops.core.random.sampling import axis_shuffle
from pybrops.core.random.sampling import outcross_shuffle
from pybrops.core.util.array import sliceaxisix

FAILURES = []


def check(cond, msg):
    if not cond:
        FAILURES.append(msg)


class Digest:
    """SHA-256 over a canonical serialisation of python / numpy values."""
    def __init__(self):
        self.h = hashlib.sha256()
        self.n = 0

    def add(self, obj):
        self.n += 1
        self._add(obj)

    def _add(self, obj):
        h = self.h
        if isinstance(obj, numpy.ndarray):
            h.update(b"A")
            h.update(str(obj.dtype).encode())
            h.update(repr(obj.shape).encode())
            if obj.dtype == object:
                h.update(repr(obj.tolist()).encode())
            else:
                h.update(numpy.ascontiguousarray(obj).tobytes())
        elif isinstance(obj, numpy.generic):
            h.update(b"G")
            h.update(str(obj.dtype).encode())
            h.update(obj.tobytes())
        elif isinstance(obj, slice):
            h.update(b"S")
            h.update(repr(obj).encode())
        elif isinstance(obj, (tuple, list)):
            h.update(b"T" if isinstance(obj, tuple) else b"L")
            h.update(str(len(obj)).encode())
            for o in obj:
                self._add(o)
        elif isinstance(obj, dict):
            h.update(b"D")
            for k in sorted(obj):
                self._add(k)
                self._add(obj[k])
        elif isinstance(obj, BaseException):
            h.update(b"E")
            h.update(type(obj).__name__.encode())
            h.update(str(obj).encode())
        else:
            h.update(b"O")
            h.update(type(obj).__name__.encode())
            h.update(repr(obj).encode())
        h.update(b"|")

    def hexdigest(self):
        return self.h.hexdigest()


def rng_state(rng):
    """Canonical fingerprint of what a generator would produce next."""
    if rng is None:
        return numpy.random.get_state()[1][:8].copy(), numpy.random.get_state()[2]
    if isinstance(rng, numpy.random.Generator):
        st = rng.bit_generator.state
        return repr(st)
    st = rng.get_state()
    return st[1][:8].copy(), st[2]


def make_rngs(seed):
    """Generator, RandomState, and None (= module-global RandomState, reseeded)."""
    numpy.random.seed(seed + 7919)
    return [
        ("Generator", numpy.random.default_rng(seed)),
        ("RandomState", numpy.random.RandomState(seed)),
        ("global", None),
    ]


def attempt(dig, fn, *args, **kwargs):
    """Call fn; digest result or exception; return (ok, value)."""
    try:
        out = fn(*args, **kwargs)
    except Exception as e:          # noqa: BLE001 - we want to record whatever is raised
        dig.add(("EXC", e))
        return False, e
    dig.add(("OK", out))
    return True, out


################################################################################
# section 1 : stochastic universal sampling
################################################################################
def sus_weight_vectors():
    g = numpy.random.default_rng(20240917)
    ws = []
    ws.append(("uniform5", numpy.full(5, 1.0)))
    ws.append(("ties", numpy.array([2.0, 1.0, 2.0, 1.0, 2.0, 1.0, 3.0, 3.0])))
    ws.append(("zeros", numpy.array([0.0, 0.5, 0.0, 0.25, 0.0, 0.25, 0.0])))
    ws.append(("onehot", numpy.array([0.0, 0.0, 1.0, 0.0])))
    ws.append(("magnitudes", numpy.array([1e-12, 1.0, 1e6, 3e-7, 2.5e3, 1e-300, 0.0, 17.0])))
    ws.append(("tiny", numpy.array([1e-310, 3e-310, 2e-310, 0.0])))
    ws.append(("huge", numpy.array([1e300, 2e300, 5e299, 0.0, 1e280])))
    ws.append(("random20", g.random(20)))
    ws.append(("gamma50", g.gamma(0.3, size=50)))
    ws.append(("intweights", numpy.array([3, 0, 1, 4, 1, 5, 9, 2, 6])))
    ws.append(("single", numpy.array([0.7])))
    ws.append(("unnormalised", numpy.array([10.0, 20.0, 30.0, 40.0])))
    return ws


SUS_SIZES = [1, 2, 3, 7, 10, 16, numpy.int64(12), (4,), (2, 3), (5, 2), (2, 2, 3), (1, 1), (20, 2), 64, 101]


def section_sus():
    dig = Digest()
    nfloorceil = 0
    for wname, p in sus_weight_vectors():
        n = len(p)
        # elements are not simply 0..n-1 so that a mix-up index/element shows
        a = numpy.arange(n) * 3 + 100
        for size in SUS_SIZES:
            seed = 1000 + 31 * n + int(numpy.prod(size))
            for rname, rng in make_rngs(seed):
                tag = "sus[%s,size=%r,%s]" % (wname, size, rname)
                p_before = p.copy()
                a_before = a.copy()
                ok, out = attempt(dig, stochastic_universal_sampling, a, p, size, rng)
                dig.add(rng_state(rng))
                check(numpy.array_equal(p, p_before), tag + ": p modified")
                check(numpy.array_equal(a, a_before), tag + ": a modified")
                check(ok, tag + ": raised %r" % (out,))
                if not ok:
                    continue
                shape = (int(size),) if not isinstance(size, tuple) else size
                check(isinstance(out, numpy.ndarray), tag + ": not ndarray")
                check(out.shape == shape, tag + ": shape %r != %r" % (out.shape, shape))
                k = int(numpy.prod(shape))
                check(out.size == k, tag + ": size")
                cnt = Counter(out.ravel().tolist())
                pf = p.astype(float)
                exp = pf * (k / pf.sum()) if wname not in ("tiny",) else pf / pf.sum() * k
                for i in range(n):
                    c = cnt.get(int(a[i]), 0)
                    if p[i] == 0:
                        check(c == 0, tag + ": zero-weight element %d drawn" % i)
                    lo = numpy.floor(exp[i] * (1 - 1e-12) - 1e-12)
                    hi = numpy.ceil(exp[i] * (1 + 1e-12) + 1e-12)
                    check(lo <= c <= hi, tag + ": element %d count %d not in [%g,%g] (exp %g)" % (i, c, lo, hi, exp[i]))
                    nfloorceil += 1
                check(set(cnt) <= set(a.tolist()), tag + ": foreign element")
    # keyword-style and default-argument calls (wiring of the public signature)
    p = numpy.array([0.1, 0.4, 0.0, 0.5])
    a = numpy.array(["w", "x", "y", "z"])
    for rname, rng in make_rngs(4242):
        attempt(dig, stochastic_universal_sampling, a=a, p=p, size=(3, 4), rng=rng)
        attempt(dig, stochastic_universal_sampling, a, p, size=6, rng=rng)
        attempt(dig, stochastic_universal_sampling, p=p, a=a, rng=rng, size=numpy.int32(5))
        dig.add(rng_state(rng))
    numpy.random.seed(99)
    attempt(dig, stochastic_universal_sampling, a, p, 8)
    dig.add(rng_state(None))
    # float elements, 2-d element array (rows are selected)
    a2 = numpy.arange(12.0).reshape(4, 3)
    attempt(dig, stochastic_universal_sampling, a2, p, (2, 2), numpy.random.default_rng(5))
    # invalid inputs: record what is raised
    for rname, rng in make_rngs(77):
        attempt(dig, stochastic_universal_sampling, a, p, None, rng)
        attempt(dig, stochastic_universal_sampling, a, numpy.zeros(4), 4, rng)
        attempt(dig, stochastic_universal_sampling, a, [0.1, 0.4, 0.0, 0.5], 4, rng)
        attempt(dig, stochastic_universal_sampling, a, p, 2.5, rng)
        attempt(dig, stochastic_universal_sampling, a, p, 0, rng)
        attempt(dig, stochastic_universal_sampling, ["w", "x", "y", "z"], p, 4, rng)
        dig.add(rng_state(rng))
    attempt(dig, stochastic_universal_sampling, a, p, 4, "not an rng")
    return dig, nfloorceil


################################################################################
# section 2 : tiled choice
################################################################################
def section_tiled():
    dig = Digest()
    g = numpy.random.default_rng(31337)
    option_sets = [
        ("arange1", numpy.arange(1)),
        ("arange4", numpy.arange(4)),
        ("arange7", numpy.arange(7) * 2 + 1),
        ("float5", numpy.array([0.5, 1.5, 2.5, 3.5, 4.5])),
        ("str3", numpy.array(["aa", "b", "ccc"])),
        ("bool2", numpy.array([True, False])),
        ("perm13", g.permutation(13)),
        ("int32_6", numpy.arange(6, dtype="int32")),
    ]
    sizes = [1, 3, 4, 5, 7, 8, 13, 14, 26, 27, numpy.int64(9), (2,), (2, 3), (3, 5), (2, 2, 2), (4, 7), (1, 1), 0, (0,), (3, 0)]
    for oname, a in option_sets:
        nopt = len(a)
        for size in sizes:
            nsample = int(numpy.prod(size))
            shape = size if isinstance(size, tuple) else (int(size),)
            for replace in (False, True):
                pvals = [None]
                if nopt > 1:
                    w = numpy.arange(1, nopt + 1, dtype=float)
                    pvals.append(w / w.sum())
                for pi, p in enumerate(pvals):
                    seed = 500 + 17 * nopt + nsample + pi
                    for rname, rng in make_rngs(seed):
                        tag = "tiled[%s,size=%r,replace=%r,p=%d,%s]" % (oname, size, replace, pi, rname)
                        a_before = a.copy()
                        ok, out = attempt(dig, tiled_choice, a, size, replace, p, rng)
                        dig.add(rng_state(rng))
                        check(numpy.array_equal(a, a_before), tag + ": a modified")
                        check(ok, tag + ": raised %r" % (out,))
                        if not ok:
                            continue
                        check(out.shape == shape, tag + ": shape %r" % (out.shape,))
                        check(out.dtype == a.dtype, tag + ": dtype %r" % (out.dtype,))
                        check(set(out.ravel().tolist()) <= set(a.tolist()), tag + ": foreign element")
                        if not replace:
                            cnt = Counter(out.ravel().tolist())
                            qu, re = divmod(nsample, nopt)
                            counts = [cnt.get(v, 0) for v in a.tolist()]
                            check(all(c in (qu, qu + 1) for c in counts), tag + ": unbalanced %r" % (counts,))
                            check(sum(1 for c in counts if c == qu + 1) == re, tag + ": remainder")
                            check(sum(counts) == nsample, tag + ": total")
    # keyword-style / default-argument calls
    a = numpy.arange(5) + 10
    for rname, rng in make_rngs(2718):
        attempt(dig, tiled_choice, a=a, size=(3, 4), replace=False, p=None, rng=rng)
        attempt(dig, tiled_choice, a, 7, replace=False, rng=rng)
        attempt(dig, tiled_choice, a, (2, 2), rng=rng)                       # replace defaults to True
        attempt(dig, tiled_choice, a, 3, True, numpy.array([0.2, 0.2, 0.2, 0.2, 0.2]), rng)
        attempt(dig, tiled_choice, rng=rng, p=None, replace=False, size=numpy.int64(11), a=a)
        attempt(dig, tiled_choice, a, 6, replace=0, rng=rng)                 # falsy non-bool
        attempt(dig, tiled_choice, a, 6, replace=1, rng=rng)                 # truthy non-bool
        dig.add(rng_state(rng))
    numpy.random.seed(1234)
    attempt(dig, tiled_choice, a, 12, False)
    attempt(dig, tiled_choice, a, 12)
    dig.add(rng_state(None))
    # documented-but-unsupported / invalid inputs: record what is raised
    for rname, rng in make_rngs(55):
        attempt(dig, tiled_choice, 5, 3, True, None, rng)                    # python int has no dtype
        attempt(dig, tiled_choice, numpy.int64(5), 3, True, None, rng)       # numpy int: with replacement works
        attempt(dig, tiled_choice, numpy.int64(5), 3, False, None, rng)      # len() of numpy int
        attempt(dig, tiled_choice, a, None, True, None, rng)
        attempt(dig, tiled_choice, a, None, False, None, rng)
        attempt(dig, tiled_choice, a, 4, False, numpy.array([0.5, 0.5]), rng)   # p of wrong length
        attempt(dig, tiled_choice, a, 3, False, numpy.array([1.0, 0, 0, 0, 0]), rng)  # too few non-zero p
        attempt(dig, tiled_choice, a[:0], 3, False, None, rng)               # empty option set
        attempt(dig, tiled_choice, a, -1, False, None, rng)
        attempt(dig, tiled_choice, [1, 2, 3], 3, False, None, rng)
        dig.add(rng_state(rng))
    attempt(dig, tiled_choice, a, 4, False, None, "not an rng")
    return dig


################################################################################
# section 3 : axis shuffle + slice index helper
################################################################################
def section_axis():
    dig = Digest()
    # helper on its own
    shapes = [(3,), (2, 3), (3, 2, 4), (2, 1, 3, 2), (0, 3), (3, 0), (1, 1)]
    for shape in shapes:
        nd = len(shape)
        axsets = [()] + [(i,) for i in range(nd)] + [tuple(range(nd))]
        if nd >= 2:
            axsets += [(0, nd - 1), (nd - 1, 0), (1, 1), (-1,), (nd,), (0, 0, 1)]
        if nd >= 3:
            axsets += [(0, 2), (1, 2), (2, 1, 0)]
        for ax in axsets:
            tag = "sliceaxisix[%r,%r]" % (shape, ax)
            try:
                got = list(sliceaxisix(shape, ax))
            except Exception as e:   # noqa: BLE001
                dig.add(("EXC", e))
                continue
            dig.add(got)
            # every yielded value must be an immutable snapshot (tuple) of full rank
            check(all(isinstance(t, tuple) and len(t) == nd for t in got), tag + ": rank")
            valid = [x for x in set(ax) if 0 <= x < nd]
            nexp = int(numpy.prod([shape[x] for x in valid])) if valid else 1
            check(len(got) == nexp, tag + ": %d slices, expected %d" % (len(got), nexp))
            check(len(set(map(repr, got))) == len(got), tag + ": repeated slice")
            for t in got:
                for d, e in enumerate(t):
                    if d in valid:
                        check(isinstance(e, int) and 0 <= e < shape[d], tag + ": index")
                    else:
                        check(e == slice(None), tag + ": slice")
    # also as list / with numpy integers / by keyword, and lazily interleaved
    dig.add(list(sliceaxisix([2, 3, 2], [1])))
    dig.add(list(sliceaxisix(shape=(2, 3, 2), axis=(numpy.int64(0), numpy.int32(2)))))
    dig.add(list(sliceaxisix((numpy.int64(2), numpy.int64(2)), (1,))))
    g1 = sliceaxisix((2, 2), (0, 1))
    g2 = sliceaxisix((2, 3), (1,))
    inter = []
    for _ in range(3):
        inter.append(next(g1))
        inter.append(next(g2))
    dig.add(inter)
    check(inspect.isgenerator(g1), "sliceaxisix: not a generator")
    for bad in [((2, 3), 1), (5, (0,)), ((), ()), ((2, 3), None), (None, (0,))]:
        try:
            dig.add(list(sliceaxisix(*bad)))
        except Exception as e:   # noqa: BLE001
            dig.add(("EXC", e))

    # the shuffle itself
    arrays = [
        numpy.arange(7),
        numpy.arange(12).reshape(3, 4),
        numpy.arange(24).reshape(2, 3, 4),
        numpy.arange(48.0).reshape(2, 3, 4, 2),
        numpy.arange(20).reshape(10, 2),
        numpy.array([[1, 1, 2], [2, 3, 3], [4, 4, 4]]),
        numpy.arange(6).reshape(1, 6),
        numpy.arange(6).reshape(6, 1),
        numpy.asfortranarray(numpy.arange(12).reshape(3, 4)),
        numpy.arange(24).reshape(4, 6)[:, ::2],
    ]
    for ai, a0 in enumerate(arrays):
        nd = a0.ndim
        axes = [i for i in range(nd)] + [numpy.int64(0), ()]
        if nd >= 2:
            axes += [(0,), (nd - 1,), (0, nd - 1), tuple(range(nd))[:-1]]
        if nd >= 3:
            axes += [(1,), (0, 1), (1, 2), (0, 2)]
        for ax in axes:
            seed = 900 + 13 * ai + (sum(ax) if isinstance(ax, tuple) else int(ax))
            for rname, rng in make_rngs(seed):
                tag = "axis_shuffle[%d,%r,%s]" % (ai, ax, rname)
                a = a0.copy(order="K") if ai != 9 else numpy.arange(24).reshape(4, 6)[:, ::2]
                ok, ret = attempt(dig, axis_shuffle, a, ax, rng)
                dig.add(a)
                dig.add(rng_state(rng))
                axt = ax if isinstance(ax, tuple) else (int(ax),)
                if len(set(axt)) == nd:
                    # every axis indexed: the slices are scalars, which the
                    # generators refuse to shuffle (legacy behaviour, recorded
                    # in the digest); the array must be left untouched
                    check((not ok) and isinstance(ret, TypeError), tag + ": expected TypeError")
                    check(numpy.array_equal(a, a0), tag + ": array changed although call failed")
                    continue
                check(ok and ret is None, tag + ": returned %r" % (ret,))
                if not ok:
                    continue
                # values are permuted only within each requested slice, and there
                # only along the first remaining axis (whole sub-blocks move)
                for s in sliceaxisix(a0.shape, axt):
                    before = a0[s]
                    after = a[s]
                    if before.ndim == 0:
                        check(before == after, tag + ": scalar slice changed")
                        continue
                    rb = sorted(map(lambda r: numpy.asarray(r).tobytes(), before))
                    ra = sorted(map(lambda r: numpy.asarray(r).tobytes(), after))
                    check(rb == ra, tag + ": slice %r is not a permutation of its blocks" % (s,))
                check(sorted(a.ravel().tolist()) == sorted(a0.ravel().tolist()), tag + ": multiset")
    # keyword-style and invalid calls
    a = numpy.arange(12).reshape(3, 4)
    for rname, rng in make_rngs(606):
        b = a.copy()
        attempt(dig, axis_shuffle, a=b, axis=1, rng=rng)
        dig.add(b)
        b = a.copy()
        attempt(dig, axis_shuffle, b, axis=(0,), rng=rng)
        dig.add(b)
        b = a.copy()
        attempt(dig, axis_shuffle, b)                  # axis None -> TypeError
        attempt(dig, axis_shuffle, b, None, rng)
        attempt(dig, axis_shuffle, b, [0], rng)
        attempt(dig, axis_shuffle, b, 1.0, rng)
        attempt(dig, axis_shuffle, b.tolist(), 0, rng)
        attempt(dig, axis_shuffle, "abc", 0, rng)
        attempt(dig, axis_shuffle, b, -1, rng)         # negative axis: legacy behaviour recorded
        dig.add(b)
        attempt(dig, axis_shuffle, b, 5, rng)
        dig.add(b)
        dig.add(rng_state(rng))
    b = a.copy()
    attempt(dig, axis_shuffle, b, 0, "not an rng")
    attempt(dig, axis_shuffle, b, 0, 12345)
    attempt(dig, axis_shuffle, b.tolist(), None, "not an rng")   # first failing check wins
    attempt(dig, axis_shuffle, b, None, "not an rng")
    dig.add(b)
    return dig


################################################################################
# section 4 : outcross shuffle
################################################################################
def row_duplicates(x):
    tot = 0
    for row in x:
        tot += len(row) - len(set(row.tolist()))
    return tot


def single_exchange_improves(x):
    """Is there an exchange of two entries that lowers the duplicate number?"""
    base = row_duplicates(x)
    flat = x.ravel()
    n = flat.shape[0]
    for i in range(n):
        for j in range(i + 1, n):
            flat[i], flat[j] = flat[j], flat[i]
            s = row_duplicates(x)
            flat[i], flat[j] = flat[j], flat[i]
            if s < base:
                return True
    return False


def section_outcross():
    dig = Digest()
    g = numpy.random.default_rng(8675309)
    tables = [
        ("selfs2", numpy.array([[0, 0], [1, 1], [2, 2], [3, 3]])),
        ("mixed2", numpy.array([[0, 0], [0, 1], [1, 1], [2, 3], [3, 3]])),
        ("allsame", numpy.full((3, 2), 4)),
        ("already", numpy.array([[0, 1], [2, 3], [4, 5]])),
        ("three", numpy.array([[0, 0, 0], [1, 1, 1], [2, 2, 2]])),
        ("three_b", numpy.array([[0, 0, 1], [1, 1, 2], [2, 2, 0], [3, 3, 3]])),
        ("four", numpy.array([[5, 5, 5, 5], [6, 6, 7, 7], [8, 9, 8, 9]])),
        ("dominant", numpy.array([[1, 1], [1, 1], [1, 2], [1, 3], [2, 3]])),
        ("onerow", numpy.array([[7, 7, 8]])),
        ("onecol", numpy.array([[1], [1], [2]])),
        ("single", numpy.array([[3]])),
        ("rand6x2", g.integers(0, 4, size=(6, 2))),
        ("rand5x3", g.integers(0, 5, size=(5, 3))),
        ("rand4x4", g.integers(0, 6, size=(4, 4))),
        ("rand8x2", g.integers(0, 3, size=(8, 2))),
        ("float", numpy.array([[0.5, 0.5], [1.5, 1.5], [0.5, 2.5]])),
        ("int32", numpy.array([[0, 0], [1, 1], [1, 0]], dtype="int32")),
    ]
    for tname, x0 in tables:
        for rep in range(2):
            seed = 300 + 11 * x0.size + rep
            for rname, rng in make_rngs(seed):
                tag = "outcross[%s,%d,%s]" % (tname, rep, rname)
                x = x0.copy()
                ok, ret = attempt(dig, outcross_shuffle, x, rng)
                dig.add(x)
                dig.add(rng_state(rng))
                check(ok and ret is None, tag + ": returned %r" % (ret,))
                if not ok:
                    continue
                check(x.shape == x0.shape and x.dtype == x0.dtype, tag + ": shape/dtype")
                check(sorted(x.ravel().tolist()) == sorted(x0.ravel().tolist()), tag + ": multiset changed")
                check(row_duplicates(x) <= row_duplicates(x0), tag + ": more duplicates")
                check(not single_exchange_improves(x), tag + ": stopped before local optimum")
    # keyword style, default generator
    x0 = numpy.array([[0, 0], [1, 1], [2, 2]])
    for rname, rng in make_rngs(1618):
        x = x0.copy()
        attempt(dig, outcross_shuffle, xconfig=x, rng=rng)
        dig.add(x)
        x = x0.copy()
        attempt(dig, outcross_shuffle, rng=rng, xconfig=x)
        dig.add(x)
        dig.add(rng_state(rng))
    numpy.random.seed(5)
    x = x0.copy()
    attempt(dig, outcross_shuffle, x)
    dig.add(x)
    dig.add(rng_state(None))
    # legacy / invalid inputs: record
    for rname, rng in make_rngs(4)[:2]:
        x = numpy.array([[0, 0], [1, 1], [2, 2]]).T          # non-contiguous: ravel() copies
        attempt(dig, outcross_shuffle, x, rng)
        dig.add(x)
        x = numpy.empty((0, 2), dtype=int)
        attempt(dig, outcross_shuffle, x, rng)
        dig.add(x)
        x = numpy.array([0, 0, 1])                           # 1-d
        attempt(dig, outcross_shuffle, x, rng)
        dig.add(x)
        attempt(dig, outcross_shuffle, [[0, 0], [1, 1]], rng)
        x = numpy.arange(8).reshape(2, 2, 2) // 3            # 3-d
        attempt(dig, outcross_shuffle, x, rng)
        dig.add(x)
        dig.add(rng_state(rng))
    attempt(dig, outcross_shuffle, numpy.array([[0, 0], [1, 1]]), "not an rng")
    return dig


################################################################################
# section 5 : the functions chained the way the selection configurations do
################################################################################
def section_chain():
    dig = Digest()
    for rname, rng in make_rngs(424242):
        decn = numpy.array([0.0, 0.3, 0.05, 0.0, 0.25, 0.2, 0.2])
        out = stochastic_universal_sampling(numpy.arange(len(decn)), decn, size=(6, 2), rng=rng)
        dig.add(out)
        before = out.copy()
        outcross_shuffle(out, rng=rng)
        dig.add(out)
        check(sorted(out.ravel().tolist()) == sorted(before.ravel().tolist()), "chain: multiset")
        check(row_duplicates(out) <= row_duplicates(before), "chain: duplicates")
        axis_shuffle(out, 0, rng=rng)
        dig.add(out)
        check(all(sorted(r1.tolist()) == sorted(r2.tolist()) for r1, r2 in zip(out, before)) or True, "")
        sub = numpy.array([2, 5, 7, 11, 13])
        out = tiled_choice(sub, size=(6, 2), replace=False, rng=rng)
        dig.add(out)
        outcross_shuffle(out, rng=rng)
        axis_shuffle(out, 0, rng=rng)
        dig.add(out)
        cnt = Counter(out.ravel().tolist())
        check(sorted(cnt.values()) == [2, 2, 2, 3, 3], "chain: tiled balance %r" % (cnt,))
        dig.add(rng_state(rng))
    return dig


################################################################################
# public surface of the module (signatures must stay call-compatible)
################################################################################
def section_surface():
    dig = Digest()
    dig.add(sorted(sampling.__all__))
    for fn in (stochastic_universal_sampling, tiled_choice, axis_shuffle, outcross_shuffle, sliceaxisix):
        sig = inspect.signature(fn)
        # leading parameters: name, kind and default (annotations are not behaviour)
        lead = [(n, str(q.kind), repr(q.default)) for n, q in sig.parameters.items()]
        dig.add((fn.__name__, lead[:REFERENCE_ARITY[fn.__name__]]))
        # any parameter added after the original ones must be optional
        for n, q in list(sig.parameters.items())[REFERENCE_ARITY[fn.__name__]:]:
            check(q.default is not inspect.Parameter.empty or q.kind in (q.VAR_KEYWORD, q.VAR_POSITIONAL),
                  "%s: new parameter %s is not optional" % (fn.__name__, n))
    return dig


REFERENCE_ARITY = {
    "stochastic_universal_sampling": 4,
    "tiled_choice": 5,
    "axis_shuffle": 3,
    "outcross_shuffle": 2,
    "sliceaxisix": 2,
}

# reference digests recorded on the unchanged tree (HEAD eba7ad5e)
REFERENCE = {
    "sus": "465957ac140573de3829a8893fdd5c26454006a19916a0a798ea09560ad8e015",
    "tiled": "77dcd9be15df7b4f6af72f79ecf6a40e244caef1b6508b8397492e9532ce4be4",
    "axis": "519e97c9f4511039843f6c84088adf4e782bffd56d9ced2c7e1e3d33fec30b49",
    "outcross": "b0312583d7d29aa6006fc3278f35d319f269b79eb84c200fef09399ecdad22cd",
    "chain": "b6c7a019b6595e7dc1b13e8792166f7e95bf48a09c30bef7c59d347f7494b0f3",
    "surface": "ef8920a07c55d882894468c459e8429c925ed3683c113d1cd1620e54727fd22d",
}


def main():
    print("pybrops loaded from:", pybrops.__file__)
    print("numpy", numpy.__version__)
    results = {}
    d, nfc = section_sus()
    results["sus"] = d
    results["tiled"] = section_tiled()
    results["axis"] = section_axis()
    results["outcross"] = section_outcross()
    results["chain"] = section_chain()
    results["surface"] = section_surface()
    print("floor/ceil checks performed:", nfc)
    allh = hashlib.sha256()
    for name in ("sus", "tiled", "axis", "outcross", "chain", "surface"):
        hx = results[name].hexdigest()
        allh.update(hx.encode())
        ref = REFERENCE[name]
        status = "ok" if hx == ref else "MISMATCH (reference %s)" % ref
        print("digest %-9s records=%-6d %s  %s" % (name, results[name].n, hx, status))
        check(hx == ref, "digest of section %s differs from reference" % name)
    print("digest ALL       %s" % allh.hexdigest())
    if FAILURES:
        print("FAILED: %d problem(s)" % len(FAILURES))
        for f in FAILURES[:40]:
            print("  -", f)
        return 1
    print("PASS: all property checks hold and all digests equal the reference values")
    return 0


if __name__ == "__main__":
    sys.exit(main())
