#!/usr/bin/env python
"""
Demonstration / regression program for property C11
("Genetic maps and map functions obey their defining laws").

Deterministic (fixed seeds).  Exercises, through the public API only:

  * HaldaneMapFunction / KosambiMapFunction : mapfn, invmapfn, rprob1g/2g/1p/2p
  * StandardGeneticMap / ExtendedGeneticMap : constructor (M and cM units, any
    row order), from_pandas, from_csv, (to_egmap/from_egmap), copy, deepcopy,
    interp_genpos, interp_gmap, gdist1g, gdist2g, gdist1p, gdist2p
  * DenseGenotypeMatrix (a DenseGeneticMappableMatrix) : interp_genpos,
    interp_xoprob

Every output is (a) compared with an independently computed reference value
and (b) fed into a SHA-256 digest which is printed, so that two runs (before
and after a refactoring) can be seen to agree bit-for-bit.

Exit status 0 = all checks passed.
"""
import numpy
numpy.float_ = numpy.float64        # shim for numpy >= 2
numpy.in1d = numpy.isin             # shim for numpy >= 2

import copy
import hashlib
import inspect
import os
import sys
import tempfile
import warnings

import pandas
import pybrops
from pybrops.popgen.gmap.StandardGeneticMap import StandardGeneticMap
from pybrops.popgen.gmap.ExtendedGeneticMap import ExtendedGeneticMap
from pybrops.popgen.gmap.HaldaneMapFunction import HaldaneMapFunction
from pybrops.popgen.gmap.KosambiMapFunction import KosambiMapFunction
from pybrops.popgen.gmat.DenseGenotypeMatrix import DenseGenotypeMatrix

TOL = 1e-12
NCHECK = 0
TOTAL = hashlib.sha256()
SECTION = {}


def check(cond, msg):
    global NCHECK
    NCHECK += 1
    if not cond:
        print("CHECK FAILED:", msg)
        sys.exit(1)


def rec(section, name, value):
    """Record a value (array, scalar, str, None) in the digests."""
    if value is None or isinstance(value, (str, bool)):
        payload = repr(value).encode()
        meta = type(value).__name__
    else:
        arr = numpy.ascontiguousarray(value)
        if arr.dtype == object:
            payload = repr(arr.tolist()).encode()
        else:
            payload = arr.tobytes()
        meta = "{0}{1}".format(arr.dtype, arr.shape)
    for h in (TOTAL, SECTION.setdefault(section, hashlib.sha256())):
        h.update(name.encode())
        h.update(meta.encode())
        h.update(payload)


def same(a, b):
    """Bit-for-bit equality of two arrays (NaN == NaN)."""
    a = numpy.asarray(a)
    b = numpy.asarray(b)
    return a.shape == b.shape and a.dtype == b.dtype and numpy.array_equal(a, b, equal_nan=True)


def close(a, b, tol=TOL):
    a = numpy.asarray(a, dtype=float)
    b = numpy.asarray(b, dtype=float)
    if a.shape != b.shape:
        return False
    fin = numpy.isfinite(a) & numpy.isfinite(b)
    if not numpy.array_equal(numpy.isnan(a), numpy.isnan(b)):
        return False
    if not numpy.array_equal(a[~fin & ~numpy.isnan(a)], b[~fin & ~numpy.isnan(b)]):
        return False
    return bool(numpy.all(numpy.abs(a[fin] - b[fin]) <= tol * (1.0 + numpy.abs(b[fin]))))


################################################################################
# 1. map functions
################################################################################
def section_mapfn():
    rng = numpy.random.default_rng(11)
    d = numpy.concatenate([
        numpy.array([0.0, 1e-12, 1e-6, 0.01, 0.1, 0.5, 1.0, 2.0, 5.0, 20.0, numpy.inf]),
        numpy.sort(rng.uniform(0.0, 3.0, 40)),
    ])
    d = numpy.sort(d)
    D2 = rng.uniform(0.0, 2.0, (5, 7))
    refs = {
        "haldane": (HaldaneMapFunction(), lambda x: 0.5 * (1.0 - numpy.exp(-2.0 * x)),
                    lambda r: -0.5 * numpy.log(1.0 - 2.0 * r)),
        "kosambi": (KosambiMapFunction(), lambda x: 0.5 * numpy.tanh(2.0 * x),
                    lambda r: 0.5 * numpy.arctanh(2.0 * r)),
    }
    for nm, (fn, ref, iref) in refs.items():
        r = fn.mapfn(d)
        rec("mapfn", nm + ".mapfn", r)
        check(close(r, ref(d)), nm + " mapfn reference")
        check(r[0] == 0.0, nm + " zero -> zero")
        check(r[-1] == 0.5, nm + " inf -> one half")
        check(bool(numpy.all((r >= 0.0) & (r <= 0.5))), nm + " range [0, 0.5]")
        check(bool(numpy.all(numpy.diff(r) >= 0.0)), nm + " monotone")
        # inverse on a well conditioned range
        dd = d[d <= 5.0]
        with numpy.errstate(divide="ignore"):
            back = fn.invmapfn(fn.mapfn(dd))
            binf = fn.invmapfn(numpy.array([0.0, 0.5]))
        rec("mapfn", nm + ".invmapfn", back)
        rec("mapfn", nm + ".invmapfn_edges", binf)
        check(close(back, dd, 1e-6), nm + " inverse undoes mapfn")
        check(binf[0] == 0.0 and numpy.isposinf(binf[1]), nm + " inverse edge values")
        rr = numpy.linspace(0.0, 0.49, 25)
        inv = fn.invmapfn(rr)
        rec("mapfn", nm + ".invmapfn_grid", inv)
        check(close(inv, iref(rr)), nm + " invmapfn reference")
        check(close(fn.mapfn(inv), rr, 1e-12), nm + " mapfn undoes inverse")
        r2 = fn.mapfn(D2)
        rec("mapfn", nm + ".mapfn2d", r2)
        check(r2.shape == D2.shape and close(r2, ref(D2)), nm + " mapfn 2d")


################################################################################
# 2. genetic maps
################################################################################
def make_map(rng, nchr, with_ties=False):
    """Random congruent map, rows in sorted order. Returns chr, pos, gen (Morgans)."""
    labels = numpy.sort(rng.choice(numpy.arange(1, 12), size=nchr, replace=False))
    chrs, poss, gens = [], [], []
    for lab in labels:
        n = int(rng.integers(2, 9))
        pos = numpy.sort(rng.choice(numpy.arange(1, 2000), size=n, replace=False))
        inc = rng.uniform(0.0, 0.4, n)
        if with_ties:
            inc[rng.integers(0, n)] = 0.0
        gen = numpy.cumsum(inc)
        if rng.random() < 0.5:
            gen = gen - gen[0]
        chrs.append(numpy.repeat(lab, n))
        poss.append(pos)
        gens.append(gen)
    return (numpy.concatenate(chrs).astype(int),
            numpy.concatenate(poss).astype(int),
            numpy.concatenate(gens).astype(float))


def ref_interp(mchr, mpos, mgen, qchr, qpos):
    """Independent reference: per chromosome linear interpolation with
    linear extrapolation outside the range; NaN on absent chromosomes."""
    out = numpy.empty(len(qchr), dtype=float)
    for i, (c, x) in enumerate(zip(qchr, qpos)):
        m = (mchr == c)
        if not m.any():
            out[i] = numpy.nan
            continue
        xs = mpos[m].astype(float)
        ys = mgen[m]
        o = numpy.argsort(xs, kind="stable")
        xs, ys = xs[o], ys[o]
        k = int(numpy.searchsorted(xs, x))
        k = min(max(k, 1), len(xs) - 1)
        slope = (ys[k] - ys[k - 1]) / (xs[k] - xs[k - 1])
        out[i] = ys[k - 1] + slope * (x - xs[k - 1])
    return out


def ref_gdist1(qchr, g):
    out = numpy.empty(len(g), dtype=float)
    for i in range(len(g)):
        if i == 0 or qchr[i] != qchr[i - 1]:
            out[i] = numpy.inf
        else:
            out[i] = g[i] - g[i - 1]
    return out


def ref_gdist2(qchr, g):
    n = len(g)
    out = numpy.empty((n, n), dtype=float)
    for i in range(n):
        for j in range(n):
            out[i, j] = abs(g[i] - g[j]) if qchr[i] == qchr[j] else numpy.inf
    return out


def build_all(mchr, mpos, mgen, perm, tmpdir, tag):
    """Build the same map through every construction path of both classes.
    Returns dict name -> map."""
    c, p, g = mchr[perm], mpos[perm], mgen[perm]
    stop = p + 3
    names = numpy.array(["m{0}_{1}".format(a, b) for a, b in zip(c, p)], dtype=object)
    fncode = numpy.array(["H"] * len(c), dtype=object)
    maps = {}
    # constructors, Morgans and centiMorgans
    maps["std.ctor.M"] = StandardGeneticMap(c.copy(), p.copy(), g.copy())
    maps["std.ctor.cM"] = StandardGeneticMap(
        vrnt_chrgrp=c.copy(), vrnt_phypos=p.copy(), vrnt_genpos=100.0 * g, vrnt_genpos_units="cM"
    )
    maps["ext.ctor.M"] = ExtendedGeneticMap(c.copy(), p.copy(), stop.copy(), g.copy(), names.copy(), fncode.copy())
    maps["ext.ctor.cM"] = ExtendedGeneticMap(
        vrnt_chrgrp=c.copy(), vrnt_phypos=p.copy(), vrnt_stop=stop.copy(), vrnt_genpos=100.0 * g,
        vrnt_genpos_units="centiMorgans"
    )
    # pandas factories
    df = pandas.DataFrame({"chr": c, "pos": p, "stop": stop, "cM": 100.0 * g, "M": g,
                           "name": names, "fncode": fncode})
    maps["std.pandas.cM"] = StandardGeneticMap.from_pandas(df, vrnt_genpos_units="cM")
    maps["std.pandas.M.idx"] = StandardGeneticMap.from_pandas(
        df, vrnt_chrgrp_col=0, vrnt_phypos_col=1, vrnt_genpos_col=4, vrnt_genpos_units="Morgans"
    )
    maps["ext.pandas.cM"] = ExtendedGeneticMap.from_pandas(
        df, vrnt_name_col="name", vrnt_fncode_col="fncode", vrnt_genpos_units="cM"
    )
    maps["ext.pandas.M.idx"] = ExtendedGeneticMap.from_pandas(
        df, vrnt_chrgrp_col=0, vrnt_phypos_col=1, vrnt_stop_col=2, vrnt_genpos_col=4
    )
    # csv factories
    f1 = os.path.join(tmpdir, tag + "_std.csv")
    maps["std.ctor.M"].to_csv(f1)
    maps["std.csv"] = StandardGeneticMap.from_csv(f1, vrnt_genpos_units="cM")
    f2 = os.path.join(tmpdir, tag + "_ext.csv")
    maps["ext.ctor.M"].to_csv(f2)
    maps["ext.csv"] = ExtendedGeneticMap.from_csv(f2, vrnt_genpos_units="cM", vrnt_name_col="name")
    # egmap round trip (Morgans)
    f3 = os.path.join(tmpdir, tag + "_ext.egmap")
    maps["ext.ctor.M"].to_egmap(f3)
    maps["ext.egmap"] = ExtendedGeneticMap.from_egmap(f3)
    # copies
    maps["std.copy"] = copy.copy(maps["std.ctor.M"])
    maps["std.deepcopy"] = copy.deepcopy(maps["std.ctor.cM"])
    maps["std.copy()"] = maps["std.pandas.cM"].copy()
    maps["std.deepcopy()"] = maps["std.pandas.M.idx"].deepcopy()
    maps["ext.copy"] = copy.copy(maps["ext.ctor.M"])
    maps["ext.deepcopy"] = copy.deepcopy(maps["ext.pandas.cM"])
    return maps


def record_map(section, key, gm):
    rec(section, key + ".chrgrp", gm.vrnt_chrgrp)
    rec(section, key + ".phypos", gm.vrnt_phypos)
    rec(section, key + ".genpos", gm.vrnt_genpos)
    rec(section, key + ".grpname", gm.vrnt_chrgrp_name)
    rec(section, key + ".stix", gm.vrnt_chrgrp_stix)
    rec(section, key + ".spix", gm.vrnt_chrgrp_spix)
    rec(section, key + ".len", gm.vrnt_chrgrp_len)
    rec(section, key + ".kind", gm.spline_kind)
    rec(section, key + ".fill", gm.spline_fill_value)
    rec(section, key + ".splinekeys", numpy.array(sorted(int(k) for k in gm.spline.keys())))
    rec(section, key + ".nvrnt", numpy.array([gm.nvrnt, len(gm)]))
    if isinstance(gm, ExtendedGeneticMap):
        rec(section, key + ".stop", gm.vrnt_stop)
        rec(section, key + ".name", gm.vrnt_name)
        rec(section, key + ".fncode", gm.vrnt_fncode)


def section_maps(tmpdir):
    rng = numpy.random.default_rng(20241004)
    haldane, kosambi = HaldaneMapFunction(), KosambiMapFunction()
    for imap in range(6):
        nchr = [1, 2, 3, 4, 3, 2][imap]
        mchr, mpos, mgen = make_map(rng, nchr, with_ties=(imap % 2 == 1))
        n = len(mchr)
        sec = "map{0}".format(imap)

        # query set: own markers + in-between + outside range + absent chromosome
        absent = int(max(mchr) + 5)
        qc, qp = [], []
        for lab in numpy.unique(mchr):
            ps = mpos[mchr == lab]
            mids = (ps[:-1] + ps[1:]) // 2
            extra = rng.integers(ps[0], ps[-1] + 1, 3)
            allp = numpy.unique(numpy.concatenate([ps, mids, extra, [max(ps[0] - 7, 0), ps[-1] + 11]]))
            qc.append(numpy.repeat(lab, len(allp)))
            qp.append(allp)
        qc.append(numpy.repeat(absent, 3))
        qp.append(numpy.array([1, 50, 900]))
        qchr = numpy.concatenate(qc).astype(int)
        qpos = numpy.concatenate(qp).astype(int)
        # insert the absent chromosome in the middle too (still sorted input)
        present = qchr != absent

        ref_q = ref_interp(mchr, mpos, mgen, qchr, qpos)

        results = {}
        for iperm in range(3):
            perm = numpy.arange(n) if iperm == 0 else rng.permutation(n)
            maps = build_all(mchr, mpos, mgen, perm, tmpdir, "{0}_{1}".format(imap, iperm))
            for key, gm in maps.items():
                full = "{0}.p{1}".format(key, iperm)
                with warnings.catch_warnings():
                    warnings.simplefilter("error")     # congruent maps must not warn
                    # stored arrays are sorted / grouped regardless of the row order
                    check(same(gm.vrnt_chrgrp, mchr), full + " chrgrp sorted")
                    check(same(gm.vrnt_phypos, mpos), full + " phypos sorted")
                    check(close(gm.vrnt_genpos, mgen, 1e-14), full + " genpos sorted (Morgans)")
                    check(gm.is_grouped() and gm.has_spline() and bool(gm.is_congruent()), full + " state")
                    check(gm.spline_kind == "linear" and gm.spline_fill_value == "extrapolate", full + " spline meta")
                    check(same(gm.vrnt_chrgrp_name, numpy.unique(mchr)), full + " group names")
                    check(same(gm.vrnt_chrgrp_spix - gm.vrnt_chrgrp_stix, gm.vrnt_chrgrp_len), full + " group idx")
                    if isinstance(gm, ExtendedGeneticMap):
                        check(same(gm.vrnt_stop, mpos + 3), full + " stop follows rows")
                    sg = gm.vrnt_genpos

                    # interpolation
                    own = gm.interp_genpos(gm.vrnt_chrgrp, gm.vrnt_phypos)
                    check(close(own, sg), full + " interpolation at own markers")
                    gq = gm.interp_genpos(qchr, qpos)
                    check(close(gq, ref_q, 1e-11), full + " interpolation reference")
                    check(bool(numpy.all(numpy.isnan(gq[~present]))) and not numpy.isnan(gq[present]).any(),
                          full + " absent chromosome -> missing")
                    for lab in numpy.unique(mchr):
                        m = qchr == lab
                        check(bool(numpy.all(numpy.diff(gq[m]) >= -1e-12)), full + " order preserving")

                    # distances from genetic positions
                    d1 = gm.gdist1g(gm.vrnt_chrgrp, sg)
                    d2 = gm.gdist2g(gm.vrnt_chrgrp, sg)
                    check(same(d1, ref_gdist1(mchr, sg)), full + " gdist1g reference")
                    check(same(d2, ref_gdist2(mchr, sg)), full + " gdist2g reference")
                    check(same(d2, d2.T), full + " symmetric")
                    check(bool(numpy.all(numpy.diag(d2) == 0.0)), full + " zero diagonal")
                    for i in range(1, n):
                        check(d1[i] == d2[i, i - 1], full + " sequential agrees with pairwise")
                    check(numpy.isposinf(d1[0]), full + " +inf at first chromosome start")
                    for st, sp in zip(gm.vrnt_chrgrp_stix, gm.vrnt_chrgrp_spix):
                        check(numpy.isposinf(d1[st]), full + " +inf at chromosome start")
                        for i in range(st, sp):
                            for k in range(i, sp):
                                check(abs(d2[i, k] - numpy.sum(d1[i + 1:k + 1])) <= 1e-12, full + " additive")
                        check(bool(numpy.all(numpy.isposinf(d2[st:sp, :st]))) and
                              bool(numpy.all(numpy.isposinf(d2[st:sp, sp:]))), full + " inf between chromosomes")
                    # windows
                    d1w = gm.gdist1g(gm.vrnt_chrgrp, sg, 1, n)
                    d2w = gm.gdist2g(gm.vrnt_chrgrp, sg, 0, n - 1, 1, n)
                    check(same(d1w[1:], d1[2:]) and numpy.isposinf(d1w[0]), full + " gdist1g window")
                    check(same(d2w, d2[0:n - 1, 1:n]), full + " gdist2g window")

                    # distances from physical positions
                    p1 = gm.gdist1p(qchr, qpos)
                    p2 = gm.gdist2p(qchr, qpos)
                    check(same(p1, ref_gdist1(qchr, gq)), full + " gdist1p reference")
                    pm = numpy.flatnonzero(present)
                    check(same(p2[numpy.ix_(pm, pm)], ref_gdist2(qchr[pm], gq[pm])), full + " gdist2p reference")
                    p1w = gm.gdist1p(qchr, qpos, 2, len(qchr) - 1)
                    p2w = gm.gdist2p(qchr, qpos, 1, 6, 0, 5)
                    check(same(p2w, p2[1:6, 0:5]), full + " gdist2p window")

                    # recombination probabilities through both map functions
                    rh1 = haldane.rprob1g(gm, gm.vrnt_chrgrp, sg)
                    rk1 = kosambi.rprob1g(gm, gm.vrnt_chrgrp, sg)
                    rh2 = haldane.rprob2g(gm, gm.vrnt_chrgrp, sg)
                    rk2 = kosambi.rprob2g(gm, gm.vrnt_chrgrp, sg)
                    rh1p = haldane.rprob1p(gm, qchr, qpos)
                    rk1p = kosambi.rprob1p(gm, qchr, qpos)
                    rh2p = haldane.rprob2p(gm, qchr[pm], qpos[pm])
                    rk2p = kosambi.rprob2p(gm, qchr[pm], qpos[pm])
                    check(same(rh1, haldane.mapfn(d1)) and same(rk1, kosambi.mapfn(d1)), full + " rprob1g")
                    check(same(rh2, haldane.mapfn(d2)) and same(rk2, kosambi.mapfn(d2)), full + " rprob2g")
                    check(same(rh1p, haldane.mapfn(p1)) and same(rk1p, kosambi.mapfn(p1)), full + " rprob1p")
                    check(bool(numpy.all(rh1[gm.vrnt_chrgrp_stix] == 0.5)), full + " one half at chromosome start")

                    # interpolated genetic map (wiring of interp_gmap)
                    if isinstance(gm, ExtendedGeneticMap):
                        igm = gm.interp_gmap(qchr, qpos, qpos + 1)
                        check(same(igm.vrnt_stop, qpos + 1), full + " interp_gmap stop")
                    else:
                        igm = gm.interp_gmap(qchr, qpos)
                    check(type(igm) is type(gm), full + " interp_gmap type")
                    check(igm.vrnt_chrgrp is qchr and igm.vrnt_phypos is qpos, full + " interp_gmap arrays")
                    check(same(igm.vrnt_genpos, gq), full + " interp_gmap genpos")
                    check(igm.spline is not gm.spline and sorted(igm.spline) == sorted(gm.spline),
                          full + " interp_gmap spline copied")
                    check(igm.spline_kind == "linear" and igm.spline_fill_value == "extrapolate",
                          full + " interp_gmap spline meta")
                    check(same(igm.vrnt_chrgrp_stix, gm.vrnt_chrgrp_stix) and
                          igm.vrnt_chrgrp_stix is not gm.vrnt_chrgrp_stix, full + " interp_gmap metadata")
                    isp = numpy.array([float(igm.spline[c](x)) for c, x in zip(qchr[pm], qpos[pm])])
                    check(same(isp, gq[pm]), full + " interp_gmap spline values")

                    # genotype matrix: crossover probabilities
                    gmat_out = {}
                    for fnname, fn in (("haldane", haldane), ("kosambi", kosambi)):
                        mat = numpy.random.default_rng(5).integers(0, 3, (4, len(qchr))).astype("int8")
                        gmat = DenseGenotypeMatrix(mat, vrnt_chrgrp=qchr.copy(), vrnt_phypos=qpos.copy())
                        gmat.group_vrnt()
                        gmat.interp_xoprob(gm, fn)
                        check(same(gmat.vrnt_genpos, gq), full + " gmat genpos " + fnname)
                        exp = fn.mapfn(ref_gdist1(qchr, gq))
                        check(same(gmat.vrnt_xoprob, exp), full + " gmat xoprob " + fnname)
                        check(bool(numpy.all(gmat.vrnt_xoprob[gmat.vrnt_chrgrp_stix] == 0.5)),
                              full + " xoprob one half at chromosome start " + fnname)
                        gmat2 = DenseGenotypeMatrix(mat, vrnt_chrgrp=qchr.copy(), vrnt_phypos=qpos.copy())
                        gmat2.interp_genpos(gm)
                        check(same(gmat2.vrnt_genpos, gq) and gmat2.vrnt_xoprob is None, full + " gmat interp_genpos")
                        gmat_out[fnname] = gmat.vrnt_xoprob

                out = dict(own=own, gq=gq, d1=d1, d2=d2, d1w=d1w, d2w=d2w, p1=p1, p2=p2, p1w=p1w, p2w=p2w,
                           rh1=rh1, rk1=rk1, rh2=rh2, rk2=rk2, rh1p=rh1p, rk1p=rk1p, rh2p=rh2p, rk2p=rk2p,
                           igm=igm.vrnt_genpos, xoh=gmat_out["haldane"], xok=gmat_out["kosambi"])
                record_map(sec, full, gm)
                for k2 in sorted(out):
                    rec(sec, full + "." + k2, out[k2])
                results[(key, iperm)] = out

        # nothing depends on the order in which rows were supplied, nor on the
        # construction path when the stored Morgan values are bit-identical
        for key in sorted({k for k, _ in results}):
            for iperm in (1, 2):
                for k2 in results[(key, 0)]:
                    check(same(results[(key, 0)][k2], results[(key, iperm)][k2]),
                          "{0} {1} row-order independence {2}".format(sec, key, k2))
        for a, b in (("std.ctor.M", "ext.ctor.M"), ("std.ctor.cM", "ext.ctor.cM"),
                     ("std.ctor.M", "std.copy"), ("std.ctor.cM", "std.deepcopy"),
                     ("std.ctor.cM", "std.pandas.cM"), ("std.ctor.M", "std.pandas.M.idx"),
                     ("ext.ctor.cM", "ext.pandas.cM"), ("ext.ctor.M", "ext.pandas.M.idx"),
                     ("ext.ctor.M", "ext.copy")):
            for k2 in results[(a, 0)]:
                check(same(results[(a, 0)][k2], results[(b, 0)][k2]),
                      "{0} {1} == {2} : {3}".format(sec, a, b, k2))


################################################################################
# 3. error paths and non-default options that must stay as they are
################################################################################
def section_errors():
    c = numpy.array([1, 1, 2, 2], dtype=int)
    p = numpy.array([10, 20, 5, 9], dtype=int)
    g = numpy.array([0.0, 0.3, 0.1, 0.2])
    outcomes = []

    def attempt(label, fn):
        try:
            fn()
            outcomes.append(label + ":ok")
        except Exception as e:      # record type and message
            outcomes.append("{0}:{1}:{2}".format(label, type(e).__name__, e))

    for cls, extra in ((StandardGeneticMap, ()), (ExtendedGeneticMap, (p + 1,))):
        nm = cls.__name__
        attempt(nm + ".badunits", lambda: cls(c, p, *extra, g, vrnt_genpos_units="mM"))
        attempt(nm + ".baddtype", lambda: cls(c, p, *extra, g.astype(int)))
        attempt(nm + ".badlen", lambda: cls(c, p, *extra, g[:3]))
        attempt(nm + ".badtuple", lambda: setattr(cls(c, p, *extra, g), "vrnt_genpos", (g, "M", 1)))
        attempt(nm + ".badtuple2", lambda: setattr(cls(c, p, *extra, g), "vrnt_genpos", (list(g), "M")))
        attempt(nm + ".badtuple3", lambda: setattr(cls(c, p, *extra, g), "vrnt_genpos", (g, 1)))
        attempt(nm + ".nospline", lambda: cls(c, p, *extra, g, auto_build_spline=False).interp_genpos(c, p))
        attempt(nm + ".lexsortkeys", lambda: cls(c, p, *extra, g).lexsort(keys=[1, 2]))
        attempt(nm + ".gdist1g.list", lambda: cls(c, p, *extra, g).gdist1g(list(c), g))
        attempt(nm + ".gdist1p.float", lambda: cls(c, p, *extra, g).gdist1p(c, p.astype(float)))
        m = cls(c, p, *extra, g, auto_group=False, auto_build_spline=False)
        outcomes.append("{0}.ungrouped:{1}:{2}:{3}".format(nm, m.is_grouped(), m.has_spline(), m.spline))
        m2 = cls(c, p, *extra, 100.0 * g, vrnt_genpos_units="cM", spline_kind="nearest", spline_fill_value="extrapolate")
        outcomes.append("{0}.kind:{1}:{2}".format(nm, m2.spline_kind, m2.spline_fill_value))
        rec("errors", nm + ".nearest", m2.interp_genpos(numpy.array([1, 1, 2, 3]), numpy.array([12, 17, 6, 1])))
        m2.vrnt_genpos = (numpy.array([0.0, 40.0, 10.0, 30.0]), "cM")
        rec("errors", nm + ".setter.cM", m2.vrnt_genpos)
        m2.vrnt_genpos = numpy.array([0.0, 0.4, 0.1, 0.25])
        rec("errors", nm + ".setter.plain", m2.vrnt_genpos)
        m2.vrnt_genpos = (numpy.array([0.0, 0.4, 0.1, 0.5]), "Morgans")
        rec("errors", nm + ".setter.Morgans", m2.vrnt_genpos)
        df = m2.to_pandas()
        rec("errors", nm + ".to_pandas.cM", df["cM"].to_numpy())
        rec("errors", nm + ".to_pandas.cols", numpy.array(list(df.columns), dtype=object))
    # non-congruent map warns at interpolation time
    bad = StandardGeneticMap(c, p, numpy.array([0.3, 0.0, 0.1, 0.2]))
    with warnings.catch_warnings(record=True) as w:
        warnings.simplefilter("always")
        v = bad.interp_genpos(c, p)
    outcomes.append("noncongruent:{0}:{1}".format(len(w), [str(x.category.__name__) for x in w]))
    rec("errors", "noncongruent", v)
    for o in outcomes:
        rec("errors", "outcome", o)
    return outcomes


################################################################################
# 4. optional: new keyword parameters introduced by a refactoring (not digested)
################################################################################
def section_optional(tmpdir):
    c = numpy.array([3, 1, 1, 3], dtype=int)
    p = numpy.array([10, 20, 5, 90], dtype=int)
    g = numpy.array([0.0, 0.3, 0.1, 0.2])
    e = ExtendedGeneticMap(c, p, p + 1, g)
    f = os.path.join(tmpdir, "opt.egmap")
    e.to_egmap(f)
    if "vrnt_genpos_units" in inspect.signature(ExtendedGeneticMap.from_egmap).parameters:
        a = ExtendedGeneticMap.from_egmap(f)
        b = ExtendedGeneticMap.from_egmap(f, vrnt_genpos_units="M")
        # (plain assert: not counted, so that the check count is the same before / after)
        assert same(a.vrnt_genpos, b.vrnt_genpos) and close(a.vrnt_genpos, e.vrnt_genpos, 1e-14), "from_egmap default units"
        print("optional: from_egmap(vrnt_genpos_units=...) present, default equals explicit 'M'")


def main():
    print("pybrops from:", os.path.dirname(pybrops.__file__))
    with tempfile.TemporaryDirectory() as tmpdir:
        section_mapfn()
        section_maps(tmpdir)
        outcomes = section_errors()
        section_optional(tmpdir)
    for o in outcomes:
        print("  ", o)
    for k in sorted(SECTION):
        print("digest[{0}] = {1}".format(k, SECTION[k].hexdigest()))
    print("checks passed:", NCHECK)
    print("TOTAL DIGEST =", TOTAL.hexdigest())
    return 0


if __name__ == "__main__":
    sys.exit(main())
