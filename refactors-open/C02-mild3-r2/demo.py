#!/usr/bin/env python
"""
Demonstration / regression program for property C02
("realised recombination and segregation match the crossover probabilities").

It drives, through the public API only and with fixed seeds,

  A. pybrops.breed.prot.mate.util   mat_meiosis / mat_dh / mat_mate
  B. pybrops.core.util.mate         dense_meiosis / dense_dh / dense_cross
  C. Haldane / Kosambi map functions, StandardGeneticMap / ExtendedGeneticMap
     sequential and pairwise distances, rprob1g / rprob2g / rprob1p / rprob2p
  D. DensePhasedGenotypeMatrix.interp_genpos / interp_xoprob (inherited from
     DenseGeneticMappableMatrix), the vrnt_xoprob / vrnt_genpos setters, copies
  E. all seven mating protocols (mate())
  F. DenseExpectedMaximumBreedingValueMatrix.from_gmod (+ constructor)
  G. large-sample estimates of recombination / segregation frequencies which
     are compared with the DECLARED probabilities inside explicit error budgets

Every produced array / scalar / error message is folded into a SHA-256 digest
per section.  The digests are compared with the reference digests recorded on
the unmodified tree (EXPECTED below), i.e. the comparison is BIT-FOR-BIT; the
statistical and closed-form checks of section C, D and G are compared with
analytical reference values.  Exit status 0 <=> everything agrees.
"""
import numpy; numpy.float_ = numpy.float64; numpy.in1d = numpy.isin  # numpy 2.x shim

import copy
import hashlib
import sys
import warnings

import pybrops
from pybrops.breed.prot.mate.util import mat_meiosis, mat_dh, mat_mate
from pybrops.core.util.mate import dense_meiosis, dense_dh, dense_cross
from pybrops.popgen.gmap.StandardGeneticMap import StandardGeneticMap
from pybrops.popgen.gmap.ExtendedGeneticMap import ExtendedGeneticMap
from pybrops.popgen.gmap.HaldaneMapFunction import HaldaneMapFunction
from pybrops.popgen.gmap.KosambiMapFunction import KosambiMapFunction
from pybrops.popgen.gmat.DensePhasedGenotypeMatrix import DensePhasedGenotypeMatrix
from pybrops.breed.prot.mate.SelfCross import SelfCross
from pybrops.breed.prot.mate.TwoWayCross import TwoWayCross
from pybrops.breed.prot.mate.TwoWayDHCross import TwoWayDHCross
from pybrops.breed.prot.mate.ThreeWayCross import ThreeWayCross
from pybrops.breed.prot.mate.ThreeWayDHCross import ThreeWayDHCross
from pybrops.breed.prot.mate.FourWayCross import FourWayCross
from pybrops.breed.prot.mate.FourWayDHCross import FourWayDHCross
from pybrops.model.gmod.DenseAdditiveLinearGenomicModel import DenseAdditiveLinearGenomicModel
from pybrops.model.embvmat.DenseExpectedMaximumBreedingValueMatrix import DenseExpectedMaximumBreedingValueMatrix

print("pybrops imported from:", pybrops.__file__)

################################################################################
# reference digests, recorded on the unmodified tree (HEAD of the worktree)
EXPECTED = {
    "A": "7ef01126d6d7db6f0419ed9314d946d2e5be1d46b4b8232b5a398a4f9b5f4e5e",
    "B": "7ef01126d6d7db6f0419ed9314d946d2e5be1d46b4b8232b5a398a4f9b5f4e5e",
    "C": "d7c140b2436572d3b146b3d0fedadaed5068725ee76b7b98039b9408e559a26a",
    "D": "1196f4c6bc489988712edf6c684fae943e667ce33e1e0a2a3674a8f9f066d8eb",
    "E": "d01ba80e1274fac202fb9848e26c27df49919d67ce583d66d85d8d8cfeee7865",
    "F": "cc0e1cd21afc9ba8db1e778b96a88210023a048a79d17a733dee8b5447685936",
    "G": "75675abf57100bcc2fd9a380f500fbcbd187b6013ca3f29d654d7c9e5710ff37",
}

################################################################################
FAIL = []
SECTION = {}

def check(cond, msg):
    if not cond:
        FAIL.append(msg)
        print("  CHECK FAILED:", msg)

def rec(sec, name, obj):
    """fold an object into the digest of section ``sec``"""
    h = SECTION.setdefault(sec, hashlib.sha256())
    h.update(name.encode()); h.update(b"\x00")
    if isinstance(obj, numpy.ndarray):
        h.update(str(obj.dtype).encode()); h.update(repr(obj.shape).encode())
        if obj.dtype == object:
            h.update(repr(obj.tolist()).encode())
        else:
            h.update(numpy.ascontiguousarray(obj).tobytes())
    elif isinstance(obj, (float, numpy.floating)):
        h.update(numpy.float64(obj).tobytes())
    else:
        h.update(repr(obj).encode())
    h.update(b"\x01")

def rec_exc(sec, name, fn, *args, **kwargs):
    """call fn, record either its result or the exception type + message"""
    try:
        out = fn(*args, **kwargs)
    except Exception as e:      # noqa
        rec(sec, name, ("EXC", type(e).__name__, str(e)))
        if "-v" in sys.argv:
            print("   [%s] %s -> %s: %s" % (sec, name, type(e).__name__, e))
        return ("EXC", type(e).__name__)
    rec(sec, name, out)
    return out

def rngs(seed):
    """the two kinds of random sources the library accepts"""
    return [("gen", numpy.random.default_rng(seed)), ("rs", numpy.random.RandomState(seed))]

################################################################################
# crossover probability vectors used in A, B (edge cases named by the property)
def xo_vectors():
    out = {}
    out["zeros8"]   = numpy.zeros(8)                           # never cross, phase 0 only
    out["ones8"]    = numpy.ones(8)                            # cross at every marker
    out["half8"]    = numpy.full(8, 0.5)                       # free recombination
    out["start_half_rest0"] = numpy.array([0.5,0,0,0,0.5,0,0,0.5,0,0.0])  # 3 chromosomes, complete linkage
    out["mixed12"]  = numpy.array([0.5,0.01,0.2,0.49,0.5,0.3,0.5,0.05,0.05,0.5,0.5,0.25])
    out["single"]   = numpy.array([0.5])                       # one marker
    out["empty"]    = numpy.zeros(0)                           # no marker
    out["tiny"]     = numpy.array([0.5,1e-300,5e-324,1.0-2**-53,0.5,2**-53])
    out["f32"]      = numpy.array([0.5,0.125,0.25,0.5,0.75], dtype="float32")
    return out

def section_AB(sec, f_mei, f_dh, f_mate):
    k = 0
    for xname, xo in xo_vectors().items():
        p = len(xo)
        for dt in ("int8", "int64", "float64"):
            g0 = numpy.random.default_rng(100 + p).integers(0, 3, (2, 5, p)).astype(dt)
            g1 = numpy.random.default_rng(200 + p).integers(0, 3, (2, 4, p)).astype(dt)
            sels = [
                numpy.array([0, 1, 2, 3, 4]),
                numpy.array([4, 4, 4, 0, 0, 2, 2, 2, 2]),
                numpy.array([], dtype=int),
                numpy.repeat(3, 17),
            ]
            for si, sel in enumerate(sels):
                for rname, rng in rngs(1000 + k):
                    k += 1
                    tag = "%s/%s/%d/%s" % (xname, dt, si, rname)
                    ga = f_mei(g0, sel, xo, rng)
                    rec(sec, tag + "/meiosis", ga)
                    check(ga.shape == (len(sel), p) and ga.dtype == g0.dtype, tag + " shape/dtype")
                    dh = f_dh(g0, sel, xo, rng)
                    rec(sec, tag + "/dh", dh)
                    check(dh.shape == (2, len(sel), p) and numpy.array_equal(dh[0], dh[1]), tag + " dh copies equal")
                    msel = sel % 4
                    pr = f_mate(g0, g1, sel, msel, xo, rng)
                    rec(sec, tag + "/mate", pr)
                    check(pr.shape == (2, len(sel), p), tag + " mate shape")
                    # every gamete allele must come from one of the two parental copies
                    if len(sel):
                        ok_f = ((pr[0] == g0[0][sel]) | (pr[0] == g0[1][sel])).all()
                        ok_m = ((pr[1] == g1[0][msel]) | (pr[1] == g1[1][msel])).all()
                        check(ok_f and ok_m, tag + " alleles from parental copies")
                    # position of the stream afterwards (number of draws consumed)
                    rec(sec, tag + "/next", rng.uniform(0, 1, 3))
    # deterministic consequences of the declared probabilities
    g = numpy.stack([numpy.zeros((3, 8), "int8"), numpy.ones((3, 8), "int8")])
    sel = numpy.array([0, 1, 2, 2, 1])
    out0 = f_mei(g, sel, numpy.zeros(8), numpy.random.default_rng(5))
    check((out0 == 0).all(), sec + " xoprob=0 => copy 0 transmitted unchanged")
    out1 = f_mei(g, sel, numpy.ones(8), numpy.random.default_rng(5))
    check((out1 == numpy.tile([1, 0], 4)).all(), sec + " xoprob=1 => phase toggles at every marker")
    outl = f_mei(g, sel, numpy.array([0.5, 0, 0, 0, 0.5, 0, 0, 0.0]), numpy.random.default_rng(5))
    check((outl[:, :4] == outl[:, :1]).all() and (outl[:, 4:] == outl[:, 4:5]).all(), sec + " complete linkage inside chromosomes")
    rec(sec, "det", numpy.concatenate([out0, out1, outl]))

################################################################################
def make_maps():
    """genetic maps with several chromosome layouts"""
    maps = {}
    # three chromosomes, (6,2,5) map markers
    chrgrp = numpy.repeat(numpy.array([1, 2, 3], dtype="int64"), [6, 2, 5])
    phypos = numpy.concatenate([
        numpy.array([100, 900, 2500, 2600, 7000, 9000]),
        numpy.array([10, 5000]),
        numpy.array([1, 2, 3, 1000, 100000]),
    ]).astype("int64")
    genpos = numpy.concatenate([
        numpy.array([0.0, 0.02, 0.30, 0.31, 0.9, 1.6]),
        numpy.array([0.0, 0.5]),
        numpy.array([0.0, 0.0, 1e-9, 0.05, 3.0]),
    ])
    maps["std3"] = StandardGeneticMap(chrgrp, phypos, genpos)
    maps["std3_cM"] = StandardGeneticMap(chrgrp, phypos, genpos * 100.0, vrnt_genpos_units="cM")
    maps["ext3"] = ExtendedGeneticMap(chrgrp, phypos, phypos.copy(), genpos)
    # one chromosome only
    maps["std1"] = StandardGeneticMap(
        numpy.repeat(numpy.int64(7), 4), numpy.array([5, 50, 500, 5000], dtype="int64"), numpy.array([0.0, 0.1, 0.4, 1.0])
    )
    return maps

def make_markers():
    """marker layouts to be placed on the maps"""
    lay = {}
    lay["m3"] = (
        numpy.repeat(numpy.array([1, 2, 3], dtype="int64"), [5, 3, 4]),
        numpy.array([50, 100, 1700, 2600, 9500, 10, 2500, 6000, 2, 500, 1000, 50000], dtype="int64"),
    )
    lay["m3_singletons"] = (
        numpy.array([1, 2, 3], dtype="int64"),
        numpy.array([1000, 1000, 1000], dtype="int64"),
    )
    lay["m3_pairs"] = (
        numpy.repeat(numpy.array([1, 2, 3], dtype="int64"), 2),
        numpy.array([100, 9000, 10, 5000, 1, 100000], dtype="int64"),
    )
    lay["m_chr2only"] = (
        numpy.repeat(numpy.int64(2), 6),
        numpy.array([10, 20, 1000, 2000, 4000, 5000], dtype="int64"),
    )
    lay["m3_dup_pos"] = (
        numpy.repeat(numpy.array([1, 3], dtype="int64"), [4, 3]),
        numpy.array([900, 900, 900, 2500, 1000, 1000, 100000], dtype="int64"),
    )
    return lay

def section_C():
    sec = "C"
    hal, kos = HaldaneMapFunction(), KosambiMapFunction()
    d = numpy.array([0.0, 5e-324, 1e-12, 1e-3, 0.01, 0.1, 0.25, 0.5, 1.0, 2.5, 10.0, 400.0, numpy.inf])
    for name, fn in (("hal", hal), ("kos", kos)):
        r = fn.mapfn(d)
        rec(sec, name + "/mapfn", r)
        rec(sec, name + "/mapfn2d", fn.mapfn(d[:12].reshape(3, 4)))
        rec(sec, name + "/mapfn0d", fn.mapfn(numpy.float64(0.3)))
        with numpy.errstate(all="ignore"):
            rec(sec, name + "/invmapfn", fn.invmapfn(r))
            back = fn.invmapfn(r[:9])
        check(numpy.allclose(back, d[:9], rtol=1e-9, atol=1e-12), name + " invmapfn(mapfn(d)) == d")
        check(r[0] == 0.0 and r[-1] == 0.5 and (numpy.diff(r) >= 0).all() and (r <= 0.5).all(), name + " range/monotone")
    # closed forms
    check(numpy.array_equal(hal.mapfn(d), 0.5 * (1.0 - numpy.exp(-2.0 * d))), "Haldane closed form")
    check(numpy.array_equal(kos.mapfn(d), 0.5 * numpy.tanh(2.0 * d)), "Kosambi closed form")
    # Haldane: independent adjacent crossovers compose to the pairwise map function
    a, b = d[3:10, None], d[None, 3:10]
    ra, rb, rab = hal.mapfn(a), hal.mapfn(b), hal.mapfn(a + b)
    check(numpy.allclose(ra * (1 - rb) + rb * (1 - ra), rab, rtol=1e-12, atol=1e-15), "Haldane composition")

    maps = make_maps()
    for mname, gmap in maps.items():
        gc, gg, gp = gmap.vrnt_chrgrp, gmap.vrnt_genpos, gmap.vrnt_phypos
        rec(sec, mname + "/genpos", gg)
        for ast, asp in ((None, None), (0, None), (2, None), (None, 7), (3, 9), (6, 8), (5, 5), (-4, None)):
            tag = "%s/%r:%r" % (mname, ast, asp)
            d1 = gmap.gdist1g(gc, gg, ast, asp)
            rec(sec, tag + "/gdist1g", d1)
            d1p = gmap.gdist1p(gc, gp, ast, asp)
            rec(sec, tag + "/gdist1p", d1p)
            # reference: +inf at the first marker of every chromosome of the view
            vc, vg = gc[ast:asp], gg[ast:asp]
            ref = numpy.empty(len(vg))
            for i in range(len(vg)):
                ref[i] = numpy.inf if (i == 0 or vc[i] != vc[i - 1]) else vg[i] - vg[i - 1]
            check(numpy.array_equal(d1, ref), tag + " gdist1g reference")
        rec(sec, mname + "/gdist2g", gmap.gdist2g(gc, gg))
        rec(sec, mname + "/gdist2g_sub", gmap.gdist2g(gc, gg, 1, 5, 2, None))
        rec(sec, mname + "/gdist2p", gmap.gdist2p(gc, gp))
        for name, fn in (("hal", hal), ("kos", kos)):
            r1 = fn.rprob1g(gmap, gc, gg)
            rec(sec, mname + "/" + name + "/rprob1g", r1)
            check(numpy.array_equal(r1, fn.mapfn(gmap.gdist1g(gc, gg))), mname + name + " rprob1g == mapfn(gdist1g)")
            st = gmap.vrnt_chrgrp_stix
            check((r1[st] == 0.5).all(), mname + name + " 0.5 at every chromosome start")
            inner = numpy.ones(len(r1), bool); inner[st] = False
            check((r1[inner] < 0.5).all() or mname == "std3_x", mname + name + " < 0.5 inside chromosomes")
            r2 = fn.rprob2g(gmap, gc, gg)
            rec(sec, mname + "/" + name + "/rprob2g", r2)
            check(numpy.array_equal(r2, fn.mapfn(gmap.gdist2g(gc, gg))), mname + name + " rprob2g == mapfn(gdist2g)")
            r1p = fn.rprob1p(gmap, gc, gp)
            rec(sec, mname + "/" + name + "/rprob1p", r1p)
            check(numpy.array_equal(r1p, fn.mapfn(gmap.gdist1p(gc, gp))), mname + name + " rprob1p == mapfn(gdist1p)")
            rec(sec, mname + "/" + name + "/rprob2p", fn.rprob2p(gmap, gc, gp))
            # sequential entries agree with the first off-diagonal of the pairwise matrix
            same = gc[1:] == gc[:-1]
            check(numpy.allclose(r1[1:][same], numpy.diagonal(r2, 1)[same], rtol=0, atol=1e-15), mname + name + " rprob1g vs rprob2g")
        # type errors of gdist1g
        rec_exc(sec, mname + "/gdist1g_badchr", gmap.gdist1g, gc.astype(float), gg)
        rec_exc(sec, mname + "/gdist1g_badpos", gmap.gdist1g, gc, gg.astype("int64"))
        rec_exc(sec, mname + "/gdist1g_list", gmap.gdist1g, list(gc), gg)

################################################################################
def make_pgmat(chrgrp, phypos, ntaxa=6, seed=11, **kw):
    p = len(chrgrp)
    mat = numpy.random.default_rng(seed).integers(0, 2, (2, ntaxa, p)).astype("int8")
    taxa = numpy.array(["t%02d" % i for i in range(ntaxa)], dtype=object)
    return DensePhasedGenotypeMatrix(
        mat=mat, taxa=taxa, taxa_grp=numpy.arange(ntaxa, dtype="int64") // 2,
        vrnt_chrgrp=chrgrp, vrnt_phypos=phypos,
        vrnt_name=numpy.array(["v%03d" % i for i in range(p)], dtype=object), **kw
    )

def section_D():
    sec = "D"
    maps, lays = make_maps(), make_markers()
    fns = {"hal": HaldaneMapFunction(), "kos": KosambiMapFunction()}
    for mname, gmap in maps.items():
        for lname, (chrgrp, phypos) in lays.items():
            for fname, fn in fns.items():
                tag = "%s/%s/%s" % (mname, lname, fname)
                pg = make_pgmat(chrgrp, phypos)
                # not grouped yet: must refuse, nothing stored
                r = rec_exc(sec, tag + "/ungrouped", pg.interp_xoprob, gmap, fn)
                check(r == ("EXC", "ValueError") and pg.vrnt_xoprob is None and pg.vrnt_genpos is None, tag + " ungrouped refused")
                pg.group_vrnt()
                with warnings.catch_warnings():
                    warnings.simplefilter("ignore")
                    pg.interp_genpos(gmap)
                    rec(sec, tag + "/interp_genpos", pg.vrnt_genpos)
                    check(pg.vrnt_xoprob is None, tag + " interp_genpos leaves xoprob alone")
                    pg2 = make_pgmat(chrgrp, phypos); pg2.group_vrnt()
                    ret = pg2.interp_xoprob(gmap, fn)
                check(ret is None, tag + " returns None")
                gp, xo = pg2.vrnt_genpos, pg2.vrnt_xoprob
                rec(sec, tag + "/genpos", gp)
                rec(sec, tag + "/xoprob", xo)
                check(numpy.array_equal(gp, pg.vrnt_genpos, equal_nan=True), tag + " same genpos from both entry points")
                check(xo.dtype == numpy.float64 and xo.shape == (len(chrgrp),), tag + " xoprob dtype/shape")
                st = pg2.vrnt_chrgrp_stix
                check((xo[st] == 0.5).all(), tag + " 0.5 at chromosome starts")
                # reference: mapfn(distance to previous marker)
                ref = numpy.full(len(chrgrp), 0.5)
                for i in range(1, len(chrgrp)):
                    if chrgrp[i] == chrgrp[i - 1]:
                        ref[i] = fn.mapfn(gp[i] - gp[i - 1])
                check(numpy.array_equal(xo, ref, equal_nan=True), tag + " xoprob == mapfn(dist to previous)")
                # stored objects are the ones handed back by the properties
                check(pg2.vrnt_xoprob is pg2._vrnt_xoprob and pg2.vrnt_genpos is pg2._vrnt_genpos, tag + " property/attribute identity")
                # copies carry the probabilities
                c1, c2 = copy.copy(pg2), copy.deepcopy(pg2)
                for cn, c in (("copy", c1), ("deepcopy", c2)):
                    rec(sec, tag + "/" + cn, c.vrnt_xoprob)
                    check(c.vrnt_xoprob is not pg2.vrnt_xoprob and numpy.array_equal(c.vrnt_xoprob, xo, equal_nan=True), tag + " " + cn)
                # a second interpolation with the other map function overwrites
                other = fns["kos" if fname == "hal" else "hal"]
                with warnings.catch_warnings():
                    warnings.simplefilter("ignore")
                    pg2.interp_xoprob(gmap, other)
                rec(sec, tag + "/xoprob_other", pg2.vrnt_xoprob)
    # argument type checks
    chrgrp, phypos = lays["m3"]
    pg = make_pgmat(chrgrp, phypos); pg.group_vrnt()
    g = maps["std3"]
    rec_exc(sec, "bad_gmap", pg.interp_xoprob, "gmap", fns["hal"])
    rec_exc(sec, "bad_gmapfn", pg.interp_xoprob, g, None)
    rec_exc(sec, "bad_gmap_genpos", pg.interp_genpos, 3)
    check(pg.vrnt_xoprob is None and pg.vrnt_genpos is None, "failed calls store nothing")
    # the setters
    p = pg.nvrnt
    good = numpy.linspace(0.0, 0.5, p)
    for nm in ("vrnt_xoprob", "vrnt_genpos"):
        for vn, v in (
            ("good", good), ("none", None), ("good2", good[::-1].copy()), ("list", list(good)),
            ("f32", good.astype("float32")), ("int", numpy.zeros(p, "int64")), ("2d", good[None, :].copy()),
            ("0d", numpy.float64(0.5)), ("short", good[:-1].copy()), ("long", numpy.append(good, 0.1)),
            ("empty", numpy.zeros(0)), ("str", "0.5"), ("obj", good.astype(object)),
        ):
            before = getattr(pg, nm)
            r = rec_exc(sec, "set/%s/%s" % (nm, vn), setattr, pg, nm, v)
            after = getattr(pg, nm)
            if isinstance(r, tuple):
                check(after is before, "set %s %s: failed store leaves old value" % (nm, vn))
            else:
                check(after is v, "set %s %s: stored as is" % (nm, vn))
            rec(sec, "set/%s/%s/after" % (nm, vn), after if after is not None else "None")
    # constructor path
    pgc = make_pgmat(chrgrp, phypos, vrnt_xoprob=good, vrnt_genpos=good * 2)
    check(pgc.vrnt_xoprob is good, "constructor stores xoprob as is")
    rec(sec, "ctor/xoprob", pgc.vrnt_xoprob); rec(sec, "ctor/genpos", pgc.vrnt_genpos)
    rec_exc(sec, "ctor/bad", make_pgmat, chrgrp, phypos, vrnt_xoprob=good[:-1])
    rec_exc(sec, "ctor/bad2", make_pgmat, chrgrp, phypos, vrnt_xoprob=good.astype("float32"))

################################################################################
def mapped_pgmat(ntaxa=8, seed=21, fn=None):
    gmap = make_maps()["std3"]
    chrgrp, phypos = make_markers()["m3"]
    pg = make_pgmat(chrgrp, phypos, ntaxa=ntaxa, seed=seed)
    pg.group_vrnt()
    pg.interp_xoprob(gmap, fn if fn is not None else HaldaneMapFunction())
    return pg

def rec_pgmat(sec, tag, pg):
    rec(sec, tag + "/mat", pg.mat)
    rec(sec, tag + "/taxa", pg.taxa)
    rec(sec, tag + "/taxa_grp", pg.taxa_grp)
    rec(sec, tag + "/xoprob", pg.vrnt_xoprob)
    rec(sec, tag + "/genpos", pg.vrnt_genpos)
    rec(sec, tag + "/chrgrp", pg.vrnt_chrgrp)
    rec(sec, tag + "/stix", pg.vrnt_chrgrp_stix)

def section_E():
    sec = "E"
    prots = [
        ("self", SelfCross, 1), ("2w", TwoWayCross, 2), ("2wdh", TwoWayDHCross, 2),
        ("3w", ThreeWayCross, 3), ("3wdh", ThreeWayDHCross, 3),
        ("4w", FourWayCross, 4), ("4wdh", FourWayDHCross, 4),
    ]
    for fname, fn in (("hal", HaldaneMapFunction()), ("kos", KosambiMapFunction())):
        pg = mapped_pgmat(fn=fn)
        for pname, cls, npar in prots:
            for rname, rng in rngs(77):
                mp = cls(progeny_counter=5, family_counter=2, rng=rng)
                check(mp.nparent == npar, pname + " nparent")
                xconfig = numpy.random.default_rng(9).integers(0, pg.ntaxa, (3, npar))
                for ci, (nmating, nprogeny, nself) in enumerate((
                    (1, 1, 0), (2, 3, 0), (1, 2, 2),
                    (numpy.array([1, 0, 2]), numpy.array([2, 5, 1]), 1),
                )):
                    tag = "%s/%s/%s/%d" % (fname, pname, rname, ci)
                    out = mp.mate(pg, xconfig, nmating, nprogeny, nself=nself)
                    rec_pgmat(sec, tag, out)
                    rec(sec, tag + "/cnt", (int(mp.progeny_counter), int(mp.family_counter)))
                    check(out.vrnt_xoprob is pg.vrnt_xoprob or numpy.array_equal(out.vrnt_xoprob, pg.vrnt_xoprob), tag + " xoprob handed on")
                    check(out.mat.dtype == numpy.int8 and out.mat.shape[2] == pg.nvrnt, tag + " shape")
                rec(sec, "%s/%s/%s/next" % (fname, pname, rname), rng.uniform(0, 1, 2))
        # global generator as default source
        numpy.random.seed(4242)
        out = TwoWayDHCross().mate(pg, numpy.array([[0, 1], [2, 3]]), 2, 2)
        rec_pgmat(sec, fname + "/default_rng", out)

################################################################################
def section_F():
    sec = "F"
    rs = numpy.random.default_rng(31)
    for fname, fn in (("hal", HaldaneMapFunction()), ("kos", KosambiMapFunction())):
        pg = mapped_pgmat(ntaxa=5, seed=23, fn=fn)
        p = pg.nvrnt
        for ntrait in (1, 3):
            trait = numpy.array(["tr%d" % i for i in range(ntrait)], dtype=object)
            gm = DenseAdditiveLinearGenomicModel(
                beta=rs.normal(size=(1, ntrait)), u_misc=None, u_a=rs.normal(size=(p, ntrait)), trait=trait
            )
            for ci, (nprogeny, nrep) in enumerate((
                (1, 1), (4, 3), (numpy.array([1, 2, 3, 4, 5]), 2), (3, numpy.array([1, 2, 1, 3, 1])),
            )):
                tag = "%s/%d/%d" % (fname, ntrait, ci)
                numpy.random.seed(900 + ci)
                e = DenseExpectedMaximumBreedingValueMatrix.from_gmod(gm, pg, nprogeny, nrep)
                check(type(e) is DenseExpectedMaximumBreedingValueMatrix, tag + " type")
                rec(sec, tag + "/mat", e.mat); rec(sec, tag + "/location", e.location); rec(sec, tag + "/scale", e.scale)
                rec(sec, tag + "/taxa", e.taxa); rec(sec, tag + "/taxa_grp", e.taxa_grp); rec(sec, tag + "/trait", e.trait)
                rec(sec, tag + "/next", numpy.random.uniform(0, 1, 2))
                check(e.mat.shape == (pg.ntaxa, ntrait), tag + " shape")
                # the parents' matrix is untouched
                check(pg.vrnt_xoprob.shape == (p,), tag + " parent untouched")
            rec_exc(sec, "%s/%d/bad_nprogeny" % (fname, ntrait), DenseExpectedMaximumBreedingValueMatrix.from_gmod, gm, pg, numpy.array([1, 2]), 1)
            rec_exc(sec, "%s/%d/bad_gmod" % (fname, ntrait), DenseExpectedMaximumBreedingValueMatrix.from_gmod, None, pg, 1, 1)
        # no crossover probabilities: refused
        pgn = make_pgmat(*make_markers()["m3"], ntaxa=5)
        rec_exc(sec, fname + "/no_xoprob", DenseExpectedMaximumBreedingValueMatrix.from_gmod, gm, pgn, 1, 1)
    # xoprob = 0 everywhere => DH progeny are copies of phase 0: EMBV is deterministic
    pg = mapped_pgmat(ntaxa=4, seed=29)
    pg.vrnt_xoprob = numpy.zeros(pg.nvrnt)
    gm = DenseAdditiveLinearGenomicModel(beta=numpy.array([[1.5]]), u_misc=None, u_a=rs.normal(size=(pg.nvrnt, 1)), trait=numpy.array(["y"], dtype=object))
    numpy.random.seed(1)
    e = DenseExpectedMaximumBreedingValueMatrix.from_gmod(gm, pg, 3, 2)
    raw = e.mat * e.scale + e.location
    ref = 1.5 + (2.0 * pg.mat[0]).dot(gm.u_a)
    check(numpy.allclose(raw, ref, rtol=1e-10, atol=1e-10), "F deterministic EMBV with xoprob=0")
    rec(sec, "det/mat", e.mat)
    # constructor (direct) and copies
    m = numpy.array([[0.5, -1.0], [1.0, 0.25], [-1.5, 0.75]])
    tx = numpy.array(["a", "b", "c"], dtype=object)
    for ci, kw in enumerate((
        {}, {"location": 2.0, "scale": 3.0}, {"location": numpy.array([1.0, 2.0]), "scale": numpy.array([0.5, 4.0])},
        {"taxa": tx, "taxa_grp": numpy.array([0, 0, 1], dtype="int64"), "trait": numpy.array(["p", "q"], dtype=object)},
    )):
        e = DenseExpectedMaximumBreedingValueMatrix(m, **kw)
        for at in ("mat", "location", "scale", "taxa", "taxa_grp", "trait"):
            v = getattr(e, at)
            rec(sec, "ctor/%d/%s" % (ci, at), v if v is not None else "None")
    e2 = DenseExpectedMaximumBreedingValueMatrix(m, 2.0, 3.0, tx)
    rec(sec, "ctor/pos", (e2.location, e2.scale, e2.taxa))
    rec_exc(sec, "ctor/bad", DenseExpectedMaximumBreedingValueMatrix, m, location=numpy.zeros(3))
    rec_exc(sec, "ctor/bad2", DenseExpectedMaximumBreedingValueMatrix, "m")

################################################################################
def section_G():
    """large-sample estimation against the declared probabilities"""
    sec = "G"
    Z = 5.0     # error budget: |estimate - p| <= Z * sqrt(p(1-p)/n) + 1/n   (two-sided, ~6e-7 per test)
    def within(est, p, n):
        return numpy.abs(est - p) <= Z * numpy.sqrt(numpy.maximum(p * (1 - p), 1e-12) / n) + 1.0 / n

    gmap = make_maps()["std3"]
    chrgrp, phypos = make_markers()["m3"]
    n = 40000
    for fname, fn in (("hal", HaldaneMapFunction()), ("kos", KosambiMapFunction())):
        # parent 0: both copies all-0 ; parent 1: both copies all-1  => F1 carries copy 0 = 0s, copy 1 = 1s
        p = len(chrgrp)
        mat = numpy.zeros((2, 2, p), "int8"); mat[:, 1, :] = 1
        pg = DensePhasedGenotypeMatrix(mat=mat, vrnt_chrgrp=chrgrp, vrnt_phypos=phypos)
        pg.group_vrnt(); pg.interp_xoprob(gmap, fn)
        xo, gp, st = pg.vrnt_xoprob, pg.vrnt_genpos, pg.vrnt_chrgrp_stix
        for rname, rng in rngs(2024):
            tag = fname + "/" + rname
            dh = TwoWayDHCross(rng=rng).mate(pg, numpy.array([[0, 1]]), 1, n)
            prov = dh.mat[0]                                   # (n,p) gamete provenance (0/1)
            rec(sec, tag + "/prov_sum", prov.sum(axis=0))
            rec(sec, tag + "/prov", prov)
            # 1. each copy is transmitted with probability 1/2 at every locus
            check(within(prov.mean(axis=0), 0.5, n).all(), tag + " transmission 1/2 at every locus")
            # 2. adjacent markers: recombination fraction == stored crossover probability
            recomb = (prov[:, 1:] != prov[:, :-1])
            check(within(recomb.mean(axis=0), xo[1:], n).all(), tag + " adjacent recombination == xoprob")
            # 3. non-adjacent markers on the same chromosome: Haldane map function of the distance
            if fname == "hal":
                for i in range(p):
                    for j in range(i + 2, p):
                        if chrgrp[i] == chrgrp[j]:
                            est = (prov[:, i] != prov[:, j]).mean()
                            check(within(est, fn.mapfn(gp[j] - gp[i]), n), tag + " pairwise %d,%d" % (i, j))
            # 4. starts of different chromosomes assort independently
            for a in range(len(st)):
                for b in range(a + 1, len(st)):
                    est = (prov[:, st[a]] != prov[:, st[b]]).mean()
                    check(within(est, 0.5, n), tag + " independent assortment %d,%d" % (a, b))
            # 5. crossover events in different intervals are independent
            ev = recomb.astype(float)
            for i in range(ev.shape[1]):
                for j in range(i + 1, ev.shape[1]):
                    pij = xo[i + 1] * xo[j + 1]
                    est = (ev[:, i] * ev[:, j]).mean()
                    check(within(est, pij, n), tag + " joint crossover %d,%d" % (i, j))

    # raw helper, arbitrary probability vector (not derived from a map), both helper modules
    xo = numpy.array([0.5, 0.05, 0.45, 1.0, 0.0, 0.5, 0.3, 0.3, 0.5, 0.02])
    g = numpy.stack([numpy.zeros((1, 10), "int8"), numpy.ones((1, 10), "int8")])
    for hname, f in (("mat", mat_meiosis), ("dense", dense_meiosis)):
        for rname, rng in rngs(99):
            ga = f(g, numpy.zeros(n, dtype=int), xo, rng)
            rec(sec, hname + "/" + rname + "/sum", ga.sum(axis=0))
            check(within((ga[:, 1:] != ga[:, :-1]).mean(axis=0), xo[1:], n).all(), hname + rname + " adjacent recombination == xoprob")
            check(within(ga[:, 0].mean(), xo[0], n), hname + rname + " start copy ~ xoprob[0]")
            # each gamete uses its own random row
            check(len(numpy.unique(ga, axis=0)) > 30, hname + rname + " gametes differ")

################################################################################
def main():
    section_AB("A", mat_meiosis, mat_dh, mat_mate)
    section_AB("B", dense_meiosis, dense_dh, dense_cross)
    with warnings.catch_warnings():
        warnings.simplefilter("ignore")
        section_C()
        section_D()
        section_E()
        section_F()
        section_G()

    total = hashlib.sha256()
    ok = True
    for sec in sorted(SECTION):
        dg = SECTION[sec].hexdigest()
        total.update(dg.encode())
        exp = EXPECTED.get(sec)
        same = (dg == exp)
        ok = ok and same
        print("section %s digest %s  %s" % (sec, dg, "== reference" if same else "!= reference " + str(exp)))
    print("TOTAL digest", total.hexdigest())
    print("analytical / statistical checks failed:", len(FAIL))
    if FAIL or not ok:
        print("DEMO FAILED")
        return 1
    print("DEMO OK")
    return 0

if __name__ == "__main__":
    sys.exit(main())
