#!/usr/bin/env python3
"""
Demonstration program for property C08 (seeded runs are reproducible and
explicit generators are isolated).

Run as:
    cd /tmp/wt/C08p && PYTHONPATH=/tmp/wt/C08p /venv/bin/python demo.py

The program is deterministic (fixed seeds).  It
  A. re-seeds pybrops' global generator and repeats one fixed sequence of
     stochastic calls after three different interpreter histories (one of them
     seeded from OS entropy) and checks that the outputs are bit-identical,
  B. hands explicit generators (numpy Generator and legacy RandomState) to every
     component that takes ``rng`` and checks that the result depends only on the
     generator and that the python / numpy global streams are untouched,
  C. records the wiring (default generator identities, copies sharing their
     generator) and the error paths of the touched functions,
and compares the SHA-256 digests of everything recorded with reference digests
obtained on the unchanged tree.  All comparisons are exact (bit-for-bit); no
arithmetic is re-associated by any of the refactorings that share this demo.
Exit status 0 = everything agrees.
"""
import numpy
numpy.float_ = numpy.float64        # shims for the sandbox numpy
numpy.in1d = numpy.isin

import copy
import hashlib
import random
import sys
import warnings

warnings.simplefilter("ignore")

import pandas
import pybrops
from pybrops.core.random import prng
from pybrops.core.random.sampling import stochastic_universal_sampling
from pybrops.core.random.sampling import tiled_choice
from pybrops.core.random.sampling import axis_shuffle
from pybrops.core.random.sampling import outcross_shuffle
from pybrops.popgen.gmat.DensePhasedGenotypeMatrix import DensePhasedGenotypeMatrix
from pybrops.model.gmod.DenseAdditiveLinearGenomicModel import DenseAdditiveLinearGenomicModel
from pybrops.breed.prot.mate.TwoWayCross import TwoWayCross
from pybrops.breed.prot.mate.TwoWayDHCross import TwoWayDHCross
from pybrops.breed.prot.pt.G_E_Phenotyping import G_E_Phenotyping
from pybrops.breed.prot.sel.cfg.SubsetSelectionConfiguration import SubsetSelectionConfiguration
from pybrops.breed.prot.sel.cfg.SubsetMateSelectionConfiguration import SubsetMateSelectionConfiguration
from pybrops.opt.algo.SubsetGeneticAlgorithm import SubsetGeneticAlgorithm
from pybrops.opt.prob.SubsetProblem import SubsetProblem

################################################################################
# reference digests (recorded on the unchanged tree, /venv numpy + pymoo 0.6.2)
################################################################################
EXPECTED = {
    'A.seed[0]': '32d4afa1ecc9eaf94807af85edd43a8df1f9f944d3a5800acd2148d4e67c43bb',
    'A.seed[1]': '1ceb282169f852986e0c937f2aa2584c11d48baad9525275915b4bf180141fe7',
    'A.seed[12345]': 'a7b6e63fb19fe8cdd2b99a26630e5fb9fd6c0a9604a8fd066f39b6b51ff0db78',
    'A.seed[4294967295]': 'e0a86348a8a574c10c190034f8b797baf72d6c0d7f17e323f20e3abe19f7f214',
    'A.seed[1180591620717411303427]': '991085d8162d4c0a2f1fe9e0e7d94317dd4788bb62dcdc0332d166a30b145c89',
    'A.seed[-5]': '192396b7b20ced6eb97b7b4e1e6dffe3bd7ceba69d4c4221ee15fded7ac80e0a',
    'A.global_prng_is_numpy_global': '692279ef5a01964dc458c88343a5474a7ae5efa0b40224af995a773eb141c377',
    'B.Generator[0]': '2666d34d24f50c85bfc8b732c3286282db73450880bf7a518a63c40ed6c585ef',
    'B.RandomState[0]': 'f743856e54320f1050def8e959e3b929553c73a9caaab4d9ca0a28735435807e',
    'B.Generator[31337]': '804cd27beab1a4a1db229ff3b7b2bc1def588fc6f67ff81c5f6e792f2c57c55f',
    'B.RandomState[31337]': '84a8091cbd19eafdf262ecd487b994bcfb9914a345e06b2a9df0ae0ae24bad18',
    'B.ga.Generator[g3]': '1eb8586ad881fefae1c785133f39ced205312e6fcb96b65b38ca42b1099c8ae3',
    'B.ga.Generator[g4]': '0a10b83c8a9ac60d918839fbe7ed2d4d94dad969a8df83aeec5b4dbb281f9a37',
    'B.ga.RandomState[g3]': '049e30b707786e7e8bb3564b47e5c4afe0ce22a5c17410c9a9a54f7fd144b110',
    'B.ga.RandomState[g4]': 'd24e285aef7108433d40985421188a8960a2e58ec6749b911c24ae96558d4a9e',
    'C.wiring': 'a28a78a3d691173c18fc5db1f6728c44021ea66b3a9877d2a144edd30436931f',
    'C.globals.after': '8cf05bbd4537291c22dd761ddef0b0cdc6e18878edeee6ab25d8fc127fdbdbb9',
    'OVERALL': '08ed4fa6453387f19964882e1b07df1f4701460552944ea53e64b629f63c6c68',
}

################################################################################
# canonical serialisation -> sha256
################################################################################
def _feed(h, obj):
    if isinstance(obj, numpy.ndarray):
        if obj.dtype == object:
            h.update(b"O" + repr(obj.shape).encode())
            for e in obj.ravel():
                _feed(h, e)
        else:
            h.update(str(obj.dtype).encode() + repr(obj.shape).encode())
            h.update(numpy.ascontiguousarray(obj).tobytes())
    elif isinstance(obj, pandas.DataFrame):
        h.update(b"DF" + repr(list(obj.columns)).encode())
        for c in obj.columns:
            _feed(h, obj[c].to_numpy())
    elif isinstance(obj, (list, tuple)):
        h.update(b"L%d" % len(obj))
        for e in obj:
            _feed(h, e)
    elif isinstance(obj, dict):
        h.update(b"D%d" % len(obj))
        for k in obj:
            _feed(h, k)
            _feed(h, obj[k])
    elif isinstance(obj, numpy.generic):
        h.update(str(obj.dtype).encode() + obj.tobytes())
    elif isinstance(obj, float):
        h.update(b"f" + obj.hex().encode())
    elif obj is None or isinstance(obj, (bool, int, str)):
        h.update(type(obj).__name__.encode() + repr(obj).encode())
    else:
        raise TypeError("cannot digest %r" % type(obj))

def digest(obj):
    h = hashlib.sha256()
    _feed(h, obj)
    return h.hexdigest()

def py_state():
    return random.getstate()

def np_state():
    s = numpy.random.get_state()
    return (s[0], s[1].copy(), s[2], s[3], s[4])

def same_np_state(a, b):
    return a[0] == b[0] and numpy.array_equal(a[1], b[1]) and a[2:] == b[2:]

def global_fingerprint():
    """digest of both global stream states (does not advance them)"""
    s = np_state()
    return digest([repr(py_state()), s[0], s[1], s[2], s[3], s[4]])

def gen_state(rng):
    if isinstance(rng, numpy.random.Generator):
        return repr(rng.bit_generator.state)
    s = rng.get_state()
    return digest([s[0], s[1], s[2], s[3], s[4]])

def caught(fn, *args, **kwargs):
    try:
        out = fn(*args, **kwargs)
    except Exception as e:
        return "%s: %s" % (type(e).__name__, e)
    return ["no error", out if isinstance(out, (int, float, str, numpy.ndarray, numpy.generic, type(None))) else type(out).__name__]

################################################################################
# fixed inputs (built from a private generator, never from the global streams)
################################################################################
_g = numpy.random.default_rng(20240801)
NTAXA, NVRNT = 12, 30
MAT = _g.integers(0, 2, (2, NTAXA, NVRNT)).astype("int8")
CHRGRP = numpy.repeat([1, 2, 3], 10).astype("int64")
PHYPOS = numpy.tile(numpy.arange(10), 3).astype("int64") * 1000
GENPOS = numpy.tile(numpy.linspace(0.0, 1.0, 10), 3)
XOPROB = numpy.tile(numpy.r_[0.5, numpy.full(9, 0.1)], 3)
TAXA = numpy.array(["t%02d" % i for i in range(NTAXA)], dtype=object)
U_A = _g.normal(size=(NVRNT, 2))
WEIGHTS = _g.normal(size=20)
XMAP = numpy.array([[i, j] for i in range(NTAXA) for j in range(i + 1, NTAXA)])

def make_pgmat():
    out = DensePhasedGenotypeMatrix(
        mat=MAT.copy(), taxa=TAXA.copy(), taxa_grp=numpy.arange(NTAXA) // 4,
        vrnt_chrgrp=CHRGRP.copy(), vrnt_phypos=PHYPOS.copy(),
        vrnt_genpos=GENPOS.copy(), vrnt_xoprob=XOPROB.copy(),
    )
    out.group_vrnt()
    return out

def make_gpmod():
    return DenseAdditiveLinearGenomicModel(
        beta=numpy.array([[1.0, 2.0]]), u_misc=None, u_a=U_A.copy(),
        trait=numpy.array(["y1", "y2"], dtype=object),
    )

class ToyProblem(SubsetProblem):
    def evalfn(self, x, *args, **kwargs):
        f = -(WEIGHTS[x].sum()) + 0.1 * numpy.abs(numpy.diff(numpy.sort(x))).min()
        return (numpy.array([f]), numpy.array([]), numpy.array([]))
    def latentfn(self, x, *args, **kwargs):
        return numpy.array([WEIGHTS[x].sum()])

def make_prob():
    return ToyProblem(
        ndecn=5, decn_space=numpy.arange(20),
        decn_space_lower=numpy.repeat(0, 5), decn_space_upper=numpy.repeat(19, 5),
        nobj=1,
    )

PGMAT = make_pgmat()
GPMOD = make_gpmod()

################################################################################
# the stochastic call sequence (rng=None everywhere -> global generator)
################################################################################
def mate_block(rec, tag, rng):
    """mating: integral and array counts, with and without selfing"""
    m = TwoWayCross(rng=rng)
    xc = numpy.array([[0, 1], [2, 3], [4, 4], [11, 0]])
    p0 = m.mate(PGMAT, xc, 1, 2)
    p1 = m.mate(PGMAT, xc, numpy.array([1, 2, 1, 1]), numpy.array([2, 1, 3, 1]), nself=2)
    p2 = m.mate(PGMAT, xc[:0], 1, 1, nself=1)                   # zero crosses
    d = TwoWayDHCross(rng=rng)
    p3 = d.mate(PGMAT, xc, 1, 2, nself=1)
    for k, p in enumerate((p0, p1, p2, p3)):
        rec[tag + ".mate%d" % k] = [p.mat, p.taxa, p.taxa_grp]
    rec[tag + ".counters"] = [int(m.progeny_counter), int(m.family_counter)]
    return p1

def pheno_block(rec, tag, rng, pgmat):
    """phenotyping, also through shallow / deep copies of the protocol"""
    pt = G_E_Phenotyping(
        GPMOD, nenv=2, nrep=numpy.array([2, 1]), var_env=1.0, var_rep=0.5,
        var_err=numpy.array([1.0, 2.0]), rng=rng,
    )
    pt0 = G_E_Phenotyping(GPMOD, rng=rng)                       # all defaults
    rec[tag + ".pheno"] = pt.phenotype(pgmat)
    rec[tag + ".pheno0"] = pt0.phenotype(PGMAT)
    c1 = copy.copy(pt)
    c2 = copy.deepcopy(pt)
    c3 = pt.copy()
    c4 = pt.deepcopy()
    for k, c in enumerate((c1, c2, c3, c4)):
        rec[tag + ".pheno.copy%d" % k] = [
            c.phenotype(PGMAT), c.rng is pt.rng, type(c).__name__,
            int(c.nenv), c.nrep, c.var_env, c.var_rep, c.var_err,
            c.nrep is pt.nrep, c.var_err is pt.var_err, c.gpmod is pt.gpmod,
        ]
    pt.set_h2(0.4, PGMAT)
    rec[tag + ".pheno.h2"] = [pt.var_err, pt.phenotype(PGMAT)]

def selcfg_block(rec, tag, rng):
    """sampling of cross configurations"""
    c = SubsetSelectionConfiguration(3, 2, 1, 2, PGMAT, numpy.array([0, 3, 5, 7, 9]), rng)
    rec[tag + ".cfg.init"] = c.xconfig
    rec[tag + ".cfg.s1"] = c.sample_xconfig(return_xconfig=True)
    rec[tag + ".cfg.s2"] = [c.sample_xconfig(), c.xconfig]
    c = SubsetSelectionConfiguration(5, 2, 1, 2, PGMAT, numpy.array([2, 4]), rng=rng)  # tiling needed
    rec[tag + ".cfg.tiled"] = c.xconfig
    decn = numpy.array([0, 3, 5, 7, 9, 11, 20, 65])
    for ncross in (1, 4, 8, 19):
        mc = SubsetMateSelectionConfiguration(ncross, 2, 1, 2, PGMAT, decn, XMAP, rng)
        rec[tag + ".mcfg%d" % ncross] = [
            mc.xconfig, mc.sample_xconfig(), mc.sample_xconfig(False), mc.xconfig,
            mc.sample_xconfig(return_xconfig=True),
        ]

def sampling_block(rec, tag, rng):
    """helper functions of pybrops.core.random.sampling"""
    a = numpy.arange(10, 17)
    p = numpy.array([0.1, 0.3, 0.05, 0.05, 0.2, 0.2, 0.1])
    rec[tag + ".sus1"] = stochastic_universal_sampling(a, p, 5, rng)
    rec[tag + ".sus2"] = stochastic_universal_sampling(a, p * 3.0, size=(2, 4), rng=rng)
    rec[tag + ".tc1"] = tiled_choice(a, 4, rng=rng)
    rec[tag + ".tc2"] = tiled_choice(a, (3, 6), False, None, rng)
    rec[tag + ".tc3"] = tiled_choice(a, 14, replace=False, p=p, rng=rng)     # remainder 0
    rec[tag + ".tc4"] = tiled_choice(a, (2, 2), True, p, rng)
    rec[tag + ".tc5"] = tiled_choice(a, 3, replace=False, p=p, rng=rng)
    x = numpy.arange(24).reshape(2, 3, 4)
    axis_shuffle(x, 0, rng)
    rec[tag + ".as1"] = x.copy()
    axis_shuffle(x, (0, 2), rng=rng)
    rec[tag + ".as2"] = x.copy()
    axis_shuffle(x, (), rng=rng)
    rec[tag + ".as3"] = x.copy()
    xc = numpy.array([[1, 1], [2, 2], [3, 3], [1, 2]])
    outcross_shuffle(xc, rng)
    rec[tag + ".oc1"] = xc
    xc = numpy.array([[5, 5, 5], [5, 6, 6], [7, 8, 9]])
    outcross_shuffle(xc, rng=rng)
    rec[tag + ".oc2"] = xc

def spawn_block(rec, tag):
    """spawning of streams from the python stream"""
    one = prng.spawn()
    three = prng.spawn(3)
    none = prng.spawn(0)
    flag = prng.spawn(True)
    mt = prng.spawn(2, numpy.random.MT19937, 32)
    ph = prng.spawn(n=None, BitGenerator=numpy.random.Philox, sbits=128)
    rec[tag + ".spawn.types"] = [
        type(one).__name__, type(three).__name__, len(three), type(none).__name__, len(none),
        type(flag).__name__, len(flag), [type(g.bit_generator).__name__ for g in mt],
        type(ph.bit_generator).__name__,
    ]
    rec[tag + ".spawn.draws"] = [g.integers(0, 2**62, 4) for g in [one] + three + flag + mt + [ph]]
    rec[tag + ".spawn.state"] = [gen_state(g) for g in [one] + three + flag + mt + [ph]]
    return one, three

def ga_block(rec, tag, rng):
    """stochastic optimisation"""
    algo = SubsetGeneticAlgorithm(ngen=5, pop_size=10) if rng is None else SubsetGeneticAlgorithm(5, 10, rng)
    soln = algo.minimize(make_prob())
    rec[tag + ".ga"] = [soln.soln_decn, soln.soln_obj]

def global_sequence(seed_value):
    rec = {}
    prng.seed(seed_value)
    rec["g.afterseed"] = global_fingerprint()
    one, three = spawn_block(rec, "g")
    progeny = mate_block(rec, "g", None)
    pheno_block(rec, "g", None, progeny)
    selcfg_block(rec, "g", None)
    sampling_block(rec, "g", None)
    # wrappers exported by prng draw from the same global generator
    rec["g.wrappers"] = [prng.uniform(0, 1, 3), prng.normal(size=2), prng.choice(7, 3), prng.permutation(5)]
    # spawned streams used as explicit generators in between
    mate_block(rec, "g.sp", one)
    selcfg_block(rec, "g.sp", three[1])
    ga_block(rec, "g", None)
    rec["g.tail"] = [random.random(), numpy.random.random(3), random.getrandbits(64)]
    rec["g.end"] = global_fingerprint()
    return rec

def history(kind):
    """interpreter history executed BEFORE the re-seeding"""
    if kind == 0:
        return
    if kind == 1:
        prng.seed(999)
        [random.random() for _ in range(17)]
        numpy.random.random(1000)
        TwoWayCross().mate(PGMAT, numpy.array([[1, 2]]), 1, 5)
        prng.spawn(4)
        return
    prng.seed(None)                                             # OS entropy / time
    numpy.random.seed(None)
    [random.random() for _ in range(random.randint(1, 50))]
    numpy.random.random(numpy.random.randint(1, 50))
    sampling_block({}, "h", None)
    ga_block({}, "h", None)

################################################################################
# A. seeded reproducibility
################################################################################
results = {}
failures = []

SEEDS = [0, 1, 12345, 2**32 - 1, 2**70 + 3, -5]
for s in SEEDS:
    digs = []
    for kind in (0, 1, 2):
        history(kind)
        digs.append(digest(global_sequence(s)))
    if len(set(digs)) != 1:
        failures.append("seed %r: runs after different histories differ: %r" % (s, digs))
    results["A.seed[%d]" % s] = digs[0]
# different seeds must give different streams (sanity: seed() is not a no-op)
if len({results["A.seed[%d]" % s] for s in SEEDS}) != len(SEEDS):
    failures.append("distinct seeds gave identical runs")
# seed(): numpy stream is seeded FROM the python stream (first randint after python seeding)
for s in (0, 7, 2**40):
    prng.seed(s)
    a = np_state()
    after_py = py_state()
    random.seed(s)
    numpy.random.seed(random.randint(0, 2**32 - 1))
    if not same_np_state(a, np_state()) or after_py != py_state():
        failures.append("seed(%d) does not tie the two streams together as documented" % s)
prng.seed(11)
results["A.global_prng_is_numpy_global"] = digest([
    prng.global_prng is numpy.random.random.__self__,
    prng.global_prng is numpy.random.mtrand._rand,
    prng.uniform.__self__ is prng.global_prng,
    prng.shuffle.__self__ is prng.global_prng,
])

################################################################################
# B. explicit generators: isolation + dependence on the generator only
################################################################################
def make_rngs(seed_value):
    return {
        "Generator": lambda: numpy.random.Generator(numpy.random.PCG64(seed_value)),
        "RandomState": lambda: numpy.random.RandomState(seed_value),
    }

def explicit_sequence(rng):
    rec = {}
    progeny = mate_block(rec, "e", rng)
    pheno_block(rec, "e", rng, progeny)
    selcfg_block(rec, "e", rng)
    sampling_block(rec, "e", rng)
    rec["e.state"] = gen_state(rng)
    return rec

for seed_value in (0, 31337):
    for name, factory in make_rngs(seed_value).items():
        digs = []
        for gseed in (3, 4, None):
            prng.seed(gseed)
            numpy.random.random(gseed or 1)
            py0, np0 = py_state(), np_state()
            digs.append(digest(explicit_sequence(factory())))
            if py_state() != py0:
                failures.append("python global stream moved by explicit %s" % name)
            if not same_np_state(np_state(), np0):
                failures.append("numpy global stream moved by explicit %s" % name)
        if len(set(digs)) != 1:
            failures.append("explicit %s(%d) result depends on global state: %r" % (name, seed_value, digs))
        results["B.%s[%d]" % (name, seed_value)] = digs[0]

# the optimiser draws the seed of pymoo's own operators from the explicit generator
# (4 bytes), while pybrops' custom pymoo operators draw from numpy's global stream:
# the result is a function of (explicit generator, global numpy stream) - recorded
# for two global seeds, repeated twice each; the python stream is never touched.
for name, factory in make_rngs(77).items():
    for gseed in (3, 4):
        digs = []
        for rep in range(2):
            prng.seed(gseed)
            py0 = py_state()
            rec = {}
            rng = factory()
            ga_block(rec, "e", rng)
            rec["e.ga.state"] = gen_state(rng)
            rec["e.ga.consumed"] = gen_state(rng) != gen_state(factory())
            _s = np_state()
            rec["e.ga.npglobal"] = [_s[0], _s[1], _s[2], _s[3], _s[4]]
            digs.append(digest(rec))
            if py_state() != py0:
                failures.append("python global stream moved by optimiser with explicit %s" % name)
        if len(set(digs)) != 1:
            failures.append("optimiser with explicit %s not reproducible" % name)
        results["B.ga.%s[g%d]" % (name, gseed)] = digs[0]

################################################################################
# C. wiring and error paths
################################################################################
prng.seed(2)
gen = numpy.random.default_rng(5)
rs = numpy.random.RandomState(5)
wiring = {}
wiring["twc.default"] = TwoWayCross().rng is prng.global_prng
wiring["twc.none"] = TwoWayCross(3, 4, None).rng is prng.global_prng
wiring["twc.gen"] = TwoWayCross(rng=gen).rng is gen
wiring["twc.counters"] = [int(TwoWayCross(3, 4).progeny_counter), int(TwoWayCross(3, 4).family_counter)]
wiring["ge.default"] = G_E_Phenotyping(GPMOD).rng is prng.global_prng
wiring["ge.rs"] = G_E_Phenotyping(GPMOD, rng=rs).rng is rs
wiring["ga.default"] = SubsetGeneticAlgorithm().rng is prng.global_prng
wiring["ga.none"] = SubsetGeneticAlgorithm(rng=None).rng is prng.global_prng
wiring["ga.gen"] = SubsetGeneticAlgorithm(3, 4, gen).rng is gen
wiring["cfg.default"] = SubsetSelectionConfiguration(2, 2, 1, 1, PGMAT, numpy.array([0, 1, 2, 3])).rng is prng.global_prng
wiring["cfg.gen"] = SubsetSelectionConfiguration(2, 2, 1, 1, PGMAT, numpy.array([0, 1, 2, 3]), gen).rng is gen
mc = SubsetMateSelectionConfiguration(2, 2, 1, 1, PGMAT, numpy.array([0, 1, 2, 3]), XMAP, rs)
wiring["mcfg.rs"] = [mc.rng is rs, mc.xconfig_xmap is XMAP, int(mc.ncross), int(mc.nparent)]
mc.rng = None
wiring["mcfg.reset"] = mc.rng is prng.global_prng
wiring["err.spawn.neg"] = caught(prng.spawn, -1)
wiring["err.spawn.neg2"] = caught(prng.spawn, n=-17)
wiring["err.spawn.float"] = caught(prng.spawn, 1.5)
wiring["err.spawn.npint"] = caught(prng.spawn, numpy.int64(2))
wiring["err.spawn.str"] = caught(prng.spawn, "3")
wiring["err.twc.rng"] = caught(TwoWayCross, rng="x")
wiring["err.twc.cnt"] = caught(TwoWayCross, 1.5)
wiring["err.ge.rng"] = caught(G_E_Phenotyping, GPMOD, rng=12)
wiring["err.ga.rng"] = caught(SubsetGeneticAlgorithm, rng=12)
wiring["err.cfg.rng"] = caught(SubsetSelectionConfiguration, 2, 2, 1, 1, PGMAT, numpy.array([0, 1, 2, 3]), rng=random)
wiring["err.mcfg.rng"] = caught(SubsetMateSelectionConfiguration, 2, 2, 1, 1, PGMAT, numpy.array([0, 1, 2, 3]), XMAP, "g")
wiring["err.as.rng"] = caught(axis_shuffle, numpy.arange(4), 0, random)
wiring["err.as.axis"] = caught(axis_shuffle, numpy.arange(4), None, gen)
wiring["err.as.a"] = caught(axis_shuffle, [1, 2, 3], 0, gen)
wiring["err.tc.size"] = caught(tiled_choice, numpy.arange(4), None, False, None, gen)
wiring["err.tc.a"] = caught(tiled_choice, 4, 2, True, None, gen)
wiring["err.sus.rng"] = caught(stochastic_universal_sampling, numpy.arange(3), numpy.ones(3), 2, "rng")
wiring["err.oc.rng"] = caught(outcross_shuffle, numpy.array([[1, 1], [2, 2]]), "rng")
wiring["err.mate.xc"] = caught(TwoWayCross(rng=gen).mate, PGMAT, numpy.array([[0, 1, 2]]), 1, 1)
wiring["gen.untouched"] = [gen_state(gen) == gen_state(numpy.random.default_rng(5)), gen_state(rs) != ""]
results["C.wiring"] = digest(wiring)
if "--verbose" in sys.argv:
    for k in wiring:
        print("   ", k, "=", wiring[k])
results["C.globals.after"] = global_fingerprint()

################################################################################
# report
################################################################################
print("pybrops from:", pybrops.__file__)
print("numpy", numpy.__version__)
for k in results:
    print("%-28s %s" % (k, results[k]))
overall = digest(results)
print("%-28s %s" % ("OVERALL", overall))

if "--record" in sys.argv:
    print("EXPECTED = {")
    for k in results:
        print("    %r: %r," % (k, results[k]))
    print("    %r: %r," % ("OVERALL", overall))
    print("}")
    sys.exit(0)

for k in results:
    if EXPECTED.get(k) != results[k]:
        failures.append("digest of %s differs from the reference: %s != %s" % (k, results[k], EXPECTED.get(k)))
if EXPECTED.get("OVERALL") != overall:
    failures.append("overall digest differs from the reference")

if failures:
    print("FAIL")
    for f in failures:
        print("  -", f)
    sys.exit(1)
print("PASS: all outputs bit-identical to the reference digests")
sys.exit(0)
